#!/usr/bin/env python3
"""Applies each deliberate break to a scratch copy of /repo/processscheduler
(outside /repo and /verif), runs the named property's quick check against the
copy (RTMON_REPO) and records whether it exited 1 with a VIOLATION line.

usage: selftest/run_breaks.py [--only substr] [--suite]   (--suite also runs the
repository's test-suite against the mutant to confirm it stays green)"""
import json
import os
import shutil
import subprocess
import sys
import tempfile
import time

ROOT = os.path.dirname(os.path.dirname(os.path.abspath(__file__)))
sys.path.insert(0, os.path.join(ROOT, "selftest"))
import breaks  # noqa: E402


def main():
    only = None
    suite = "--suite" in sys.argv
    if "--only" in sys.argv:
        only = sys.argv[sys.argv.index("--only") + 1]
    results = []
    for b in breaks.B:
        if only and only not in b["id"]:
            continue
        scratch = tempfile.mkdtemp(prefix="rtmon_break_")
        try:
            shutil.copytree("/repo/processscheduler", os.path.join(scratch, "processscheduler"))
            path = os.path.join(scratch, "processscheduler", b["file"])
            src = open(path).read()
            stale = b["old"] not in src or ("old2" in b and b["old2"][0] not in src)
            if stale:
                results.append({"id": b["id"], "prop": b["prop"], "status": "stale"})
                print(f"{b['id']:40s} STALE (pattern not found)", flush=True)
                continue
            src = src.replace(b["old"], b["new"], 1)
            if "old2" in b:
                src = src.replace(b["old2"][0], b["old2"][1], 1)
            open(path, "w").write(src)
            env = dict(os.environ, RTMON_REPO=scratch, PYTHONPATH=scratch,
                       RTMON_EVIDENCE_DIR=os.path.join(scratch, "evidence"),
                       RTMON_REPLAY_DIR=os.path.join(scratch, "replays"))
            t0 = time.time()
            p = subprocess.run(["./check", b["prop"], "--tier", "quick"], cwd=ROOT, env=env, capture_output=True,
                               text=True, timeout=3600)
            viol = [l for l in p.stdout.splitlines() if l.startswith("VIOLATION")]
            status = "caught" if (p.returncode == 1 and viol) else ("inconclusive" if p.returncode == 2 else "MISSED")
            rec = {"id": b["id"], "prop": b["prop"], "status": status, "rc": p.returncode, "wall": round(time.time() - t0, 1),
                   "first_violation": viol[0][:300] if viol else None, "n_mechanisms": len(viol)}
            if suite:
                ps_ = subprocess.run(["/venv/bin/python", "-m", "pytest", "-q", "-p", "no:cacheprovider", "-x", "-n", "8",
                                      "--deselect", "test/test_plot.py", "/repo/test"], cwd=scratch,
                                     env=dict(os.environ, PYTHONPATH=scratch), capture_output=True, text=True, timeout=3600)
                rec["suite_tail"] = ps_.stdout.strip().splitlines()[-1][:120] if ps_.stdout.strip() else ""
            results.append(rec)
            print(f"{b['id']:40s} {status:12s} rc={p.returncode} {rec['wall']}s {(viol[0][:150] if viol else '')}", flush=True)
        finally:
            shutil.rmtree(scratch, ignore_errors=True)
    out = os.path.join(ROOT, "selftest", "results.json")
    prev = []
    if only and os.path.exists(out):
        prev = [r for r in json.load(open(out)) if not any(r["id"] == x["id"] for x in results)]
    with open(out, "w") as f:
        json.dump(prev + results, f, indent=1)
    missed = [r for r in results if r["status"] not in ("caught",)]
    print(f"{len(results)} breaks, {len(missed)} not caught: {[r['id'] for r in missed]}")
    return 0


if __name__ == "__main__":
    sys.exit(main())
