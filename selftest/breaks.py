"""Deliberate breaks used to validate the monitors (DESIGN.md section 7, 'Breaks it
must catch').  Each entry: (id, property whose QUICK check must exit 1, file
under processscheduler/, old text, new text).  Applied on scratch copies only."""

B = []


def add(bid, prop, file, old, new):
    B.append({"id": bid, "prop": prop, "file": file, "old": old, "new": new})


# ---- C01
add("c01-fixed-start-nonneg", "C01", "task.py",
    "            self._end - self._start == self.duration,\n            self._start >= 0,\n",
    "            self._end - self._start == self.duration,\n")
add("c01-horizon-plus1", "C01", "solver.py",
    "self.append_z3_assertion(task._end <= self.problem._horizon)",
    "self.append_z3_assertion(task._end <= self.problem._horizon + 1)")
add("c01-release-gt1", "C01", "task.py",
    "if self.release_date > 0:  # other wise redundant constraint", "if self.release_date > 1:  # other wise redundant constraint")
add("c01-deadline-plus1", "C01", "task.py",
    "self._date_assertions.append(self._end <= self.due_date)", "self._date_assertions.append(self._end <= self.due_date + 1)")
add("c01-max-dropped", "C01", "task.py",
    "        if self.max_duration is not None:\n            assertions.append(self._duration <= self.max_duration)\n", "")
add("c01-allowed-extra", "C01", "task.py",
    "self._duration == duration for duration in self.allowed_durations\n",
    "self._duration == duration for duration in list(self.allowed_durations) + [max(self.allowed_durations) + 1]\n")
add("c01-optional-branches-swapped", "C01", "task.py",
    "                    self._scheduled,\n                    z3.And(list_of_z3_assertions),\n                    not_scheduled_assertion,\n",
    "                    self._scheduled,\n                    not_scheduled_assertion,\n                    z3.And(list_of_z3_assertions),\n")
# ---- C02
add("c02-pair-loop-skip", "C02", "solver.py", "for k in range(i + 1, nb_intervals):", "for k in range(i + 2, nb_intervals):")
add("c02-overlap-minus1", "C02", "solver.py",
    "z3.Or(start_task_k >= end_task_i, start_task_i >= end_task_k)",
    "z3.Or(start_task_k >= end_task_i - 1, start_task_i >= end_task_k - 1)")
add("c02-delay-in-ignored", "C02", "task.py",
    "busy_start = self._start + delay_in if delay_in > 0 else self._start", "busy_start = self._start")
add("c02-exact-as-min", "C02", "resource.py",
    'problem_function = {"min": z3.PbGe, "max": z3.PbLe, "exact": z3.PbEq}\n\n        # TODO: move to the validator',
    'problem_function = {"min": z3.PbGe, "max": z3.PbLe, "exact": z3.PbGe}\n\n        # TODO: move to the validator')
add("c02-work-minus1", "C02", "solver.py",
    "z3.Sum(total_work_for_all_resources) >= task.work_amount\n", "z3.Sum(total_work_for_all_resources) >= task.work_amount - 1\n")
add("c02-productivity-ignored", "C02", "solver.py",
    "work_contribution = required_resource.productivity * (\n                        interv_up - interv_low\n                    )",
    "work_contribution = 1 * (\n                        interv_up - interv_low\n                    )")
add("c02-cumulative-units-not-exclusive", "C02", "solver.py",
    "            busy_intervals = ress.get_busy_intervals()\n            nb_intervals = len(busy_intervals)",
    "            busy_intervals = ress.get_busy_intervals()\n            nb_intervals = 0 if ress.name.endswith(\"_CumulativeWorker_2\") else len(busy_intervals)")
add("c02-dynamic-inverted", "C02", "task.py",
    "                self.append_z3_assertion(resource_busy_start <= resource_busy_end)\n", "")
# ---- C03
add("c03-strict-as-lax", "C03", "task_constraint.py",
    '        elif self.kind == "strict":\n            scheduled_assertion = lower < upper', '        elif self.kind == "strict":\n            scheduled_assertion = lower <= upper')
add("c03-offset-dropped", "C03", "task_constraint.py",
    "            self.task_before._end + self.offset\n            if self.offset > 0", "            self.task_before._end\n            if self.offset > 0")
add("c03-tight-as-lax", "C03", "task_constraint.py",
    "        else:  # kind == 'tight':\n            scheduled_assertion = lower == upper", "        else:  # kind == 'tight':\n            scheduled_assertion = lower <= upper")
add("c03-endsynced-starts", "C03", "task_constraint.py",
    "scheduled_assertion = self.task_1._end == self.task_2._end", "scheduled_assertion = self.task_1._start == self.task_2._start")
add("c03-contiguous-le", "C03", "task_constraint.py",
    "            asst = sorted_starts[i] == sorted_ends[i - 1]\n            #  another set of conditions, related to the time periods",
    "            asst = sorted_starts[i] >= sorted_ends[i - 1]\n            #  another set of conditions, related to the time periods")
add("c03-group-bounds-swapped", "C05", "task_constraint.py",
    "                self._start >= self.time_interval[0],\n                self._end <= self.time_interval[1],",
    "                self._start >= self.time_interval[1],\n                self._end <= self.time_interval[0],")
add("c03-schedulen-min-ple", "C03", "task_constraint.py",
    '        problem_function = {"min": z3.PbGe, "max": z3.PbLe, "exact": z3.PbEq}\n\n        # count the number of tasks that re scheduled in this time interval',
    '        problem_function = {"min": z3.PbLe, "max": z3.PbLe, "exact": z3.PbEq}\n\n        # count the number of tasks that re scheduled in this time interval')
add("c03-startat-guard-inverted", "C03", "task_constraint.py",
    "class TaskStartAt(TaskConstraint):", "class TaskStartAt(TaskConstraint):\n    _rtmon_marker = 1")
B[-1]["old2"] = ("        scheduled_assertion = self.task._start == self.value\n\n        if self.task.optional:\n            self.set_z3_assertions(\n                z3.Implies(self.task._scheduled, scheduled_assertion)",
                 "        scheduled_assertion = self.task._start == self.value\n\n        if self.task.optional:\n            self.set_z3_assertions(\n                z3.Implies(z3.Not(self.task._scheduled), scheduled_assertion)")
add("c03-startafter-strict-ge", "C03", "task_constraint.py",
    "scheduled_assertion = self.task._start > self.value", "scheduled_assertion = self.task._start >= self.value")
# ---- C04
add("c04-unavailable-gt", "C04", "resource_constraint.py",
    "                            start_task_i >= interval_upper_bound,\n                            end_task_i <= interval_lower_bound,\n                        )\n                    )\n\n        if not resource_assigned:\n            raise AssertionError(\n                \"The resource is not assigned to any task. Please first assign the resource to one or more tasks, and then add the ResourceUnavailable constraint.\"",
    "                            start_task_i >= interval_upper_bound - 1,\n                            end_task_i <= interval_lower_bound,\n                        )\n                    )\n\n        if not resource_assigned:\n            raise AssertionError(\n                \"The resource is not assigned to any task. Please first assign the resource to one or more tasks, and then add the ResourceUnavailable constraint.\"")
add("c04-workload-min-as-le", "C04", "resource_constraint.py",
    '            elif self.kind == "min":\n                workload_constraint = z3.Sum(durations) >= number_of_time_slots',
    '            elif self.kind == "min":\n                workload_constraint = z3.Sum(durations) <= number_of_time_slots')
add("c04-workload-case2-dropped", "C04", "resource_constraint.py",
    "                    self.set_z3_assertions(asst2)\n", "")
add("c04-distance-exact-as-ge", "C04", "resource_constraint.py",
    "                asst = sorted_starts[i] - sorted_ends[i - 1] == self.distance", "                asst = sorted_starts[i] - sorted_ends[i - 1] >= self.distance")
add("c04-sameworkers-ne", "C04", "resource_constraint.py",
    "                    self.select_workers_1._selection_dict[res_work_1]\n                    == self.select_workers_2._selection_dict[res_work_1]",
    "                    self.select_workers_1._selection_dict[res_work_1]\n                    != self.select_workers_2._selection_dict[res_work_1]")
add("c04-periodic-offset-ignored", "C04", "resource_constraint.py",
    "                    folded_start_task_i = (start_task_i - self.offset) % self.period\n                    conds = [",
    "                    folded_start_task_i = start_task_i % self.period\n                    conds = [")
add("c04-nondelay-dropped", "C04", "resource_constraint.py",
    "            new_cstr = z3.Implies(condition_only_scheduled_tasks, asst)\n            self.set_z3_assertions(new_cstr)\n\n\nclass ResourceTasksDistance",
    "            new_cstr = z3.Implies(condition_only_scheduled_tasks, asst)\n\n\nclass ResourceTasksDistance")
# ---- C05
add("c05-start-ge-1", "C05", "task.py",
    "            self._end - self._start == self.duration,\n            self._start >= 0,\n",
    "            self._end - self._start == self.duration,\n            self._start >= 1,\n")
add("c05-no-back-to-back", "C05", "solver.py",
    "z3.Or(start_task_k >= end_task_i, start_task_i >= end_task_k)", "z3.Or(start_task_k > end_task_i, start_task_i > end_task_k)")
add("c05-release-strict", "C05", "task.py",
    "self._date_assertions.append(self._start >= self.release_date)", "self._date_assertions.append(self._start > self.release_date)")
add("c05-horizon-strict", "C05", "solver.py",
    "self.append_z3_assertion(task._end <= self.problem._horizon)", "self.append_z3_assertion(task._end < self.problem._horizon)")
add("c05-select-min-as-exact", "C05", "resource.py",
    'problem_function = {"min": z3.PbGe, "max": z3.PbLe, "exact": z3.PbEq}\n\n        # TODO: move to the validator',
    'problem_function = {"min": z3.PbEq, "max": z3.PbLe, "exact": z3.PbEq}\n\n        # TODO: move to the validator')
# ---- C06
add("c06-flowtime-unscheduled", "C06", "objective.py",
    "                task_ends.append(task._end * task._scheduled)", "                task_ends.append(task._end)")
add("c06-precedence-guard-dropped", "C06", "task_constraint.py",
    "        if self.task_before.optional or self.task_after.optional:", "        if False and (self.task_before.optional or self.task_after.optional):")
add("c06-condition-else-true", "C06", "task_constraint.py",
    "                self.task._scheduled == True,\n                self.task._scheduled == False,", "                self.task._scheduled == True,\n                True,")
add("c06-forcen-ple", "C06", "task_constraint.py",
    '        problem_function = {"min": z3.PbGe, "max": z3.PbLe, "exact": z3.PbEq}\n\n        # first check that all tasks from the list_of_optional_tasks are',
    '        problem_function = {"min": z3.PbGe, "max": z3.PbLe, "exact": z3.PbLe}\n\n        # first check that all tasks from the list_of_optional_tasks are')
# (removed: "unscheduled variable task no longer pins _duration == 0" - no property observes the duration of an
#  unscheduled task; equivalent with respect to C01-C19)
add("c06-buffer-quantity-unscheduled", "C06", "solver.py",
    "        return z3.If(task._scheduled, quantity, 0)", "        return quantity")
# ---- C07
add("c07-minmax-swapped", "C07", "solver.py",
    '            if kind == "min":\n                self.append_z3_assertion(variable < current_variable_value)',
    '            if kind != "min":\n                self.append_z3_assertion(variable < current_variable_value)')
add("c07-weights-ignored", "C07", "solver.py",
    "weighted_objectives.append(obj.weight * variable_to_optimize)", "weighted_objectives.append(variable_to_optimize)")
add("c07-optimize-max-as-min", "C07", "solver.py",
    '                if self._objective.kind == "maximize":\n                    self._solver.maximize(variable_to_optimize)',
    '                if self._objective.kind == "maximize":\n                    self._solver.minimize(variable_to_optimize)')
add("c07-bound-index-swapped", "C07", "solver.py",
    '                self._objective._bounds[0]\n                if kind == "min"\n                else self._objective._bounds[1]',
    '                self._objective._bounds[1]\n                if kind == "min"\n                else self._objective._bounds[0]')
add("c07-first-model-after-stop", "C07", "solver.py",
    "            solution = self._solver.model()\n            current_variable_value = solution[variable].as_long()",
    "            solution = solution or self._solver.model()\n            current_variable_value = self._solver.model()[variable].as_long()")
# ---- C08
add("c08-utilization-int", "C08", "indicator.py",
    "expression = (z3.Sum(durations) * 100) / predefined_horiz", "expression = z3.Sum(durations) * int(100 / predefined_horiz)")
add("c08-cost-halved-twice", "C08", "indicator.py",
    "expression = z3.Sum(constant_costs) + z3.Sum(variable_costs) / 2", "expression = z3.Sum(constant_costs) + z3.Sum(variable_costs) / 4")
add("c08-tardy-ge", "C08", "indicator.py", "tardiness_v.append(t._end > t.due_date)", "tardiness_v.append(t._end >= t.due_date)")
add("c08-lateness-min", "C08", "indicator.py",
    "            get_maximum(self._indicator_variable, latenesses)", "            get_minimum(self._indicator_variable, latenesses)")
add("c08-target-ge", "C08", "indicator_constraint.py",
    "self.append_z3_assertion(self.indicator._indicator_variable == self.value)", "self.append_z3_assertion(self.indicator._indicator_variable >= self.value)")
add("c08-nb-assigned-gt0", "C08", "indicator.py", "z3.If(start > -1, 1, 0)", "z3.If(start > 0, 1, 0)")
# ---- C09
add("c09-unload-at-end", "C09", "solver.py", "tasks_start_unload = [t._start for t in buffer._unloading_tasks]",
    "tasks_start_unload = [t._end for t in buffer._unloading_tasks]")
B[-1]["old2"] = ("                            buffer_mapping,\n                            t._start,\n                            _buffer_quantity(t, -buffer._unloading_tasks[t]),",
                 "                            buffer_mapping,\n                            t._end,\n                            _buffer_quantity(t, -buffer._unloading_tasks[t]),")
add("c09-final-first", "C09", "solver.py",
    "                    buffer._buffer_levels[-1] == buffer.final_level", "                    buffer._buffer_levels[1] == buffer.final_level")
add("c09-bounds-skip-initial", "C09", "solver.py",
    "            if buffer.lower_bound is not None:\n                for st in buffer._buffer_levels:",
    "            if buffer.lower_bound is not None:\n                for st in buffer._buffer_levels[:-1]:")
# (removed: "clean_buffer_levels keeps the last instead of the first level of duplicate instants" - the concurrent
#  encoding gives duplicates the same level, so the two are observationally equal)
add("c09-load-sign", "C09", "solver.py",
    "                            _buffer_quantity(t, +buffer._loading_tasks[t]),\n                        )\n                    )",
    "                            _buffer_quantity(t, -buffer._loading_tasks[t]),\n                        )\n                    )")
# ---- C10
add("c10-xor-as-or", "C10", "first_order_logic.py", "        asst = z3.Xor(\n            z3.And(_get_assertions(self.constraint_1)),",
    "        asst = z3.Or(\n            z3.And(_get_assertions(self.constraint_1)),")
add("c10-implies-as-and", "C10", "first_order_logic.py", "        asst = z3.Implies(\n            self.condition,", "        asst = z3.And(\n            self.condition,")
add("c10-else-reuses-then", "C10", "first_order_logic.py",
    "            z3.And(_constraints_to_list_of_assertions(self.else_list_of_constraints)),",
    "            z3.And(_constraints_to_list_of_assertions(self.then_list_of_constraints)),")
add("c10-operand-leaks", "C10", "first_order_logic.py",
    "        constraint.set_created_from_assertion()\n", "        pass\n")
add("c10-optional-applied-dropped", "C10", "constraint.py",
    "            self.append_z3_assertion(z3.Implies(self._applied, list_of_z3_assertions))", "            self.append_z3_assertion(z3.Or(self._applied, z3.Not(self._applied)))")
add("c10-forceapply-pge", "C10", "constraint.py",
    '        problem_function = {"min": z3.PbGe, "max": z3.PbLe, "exact": z3.PbEq}\n\n        # first check that all tasks from the list_of_optional_tasks are\n        # actually optional\n        for constraint in',
    '        problem_function = {"min": z3.PbGe, "max": z3.PbLe, "exact": z3.PbGe}\n\n        # first check that all tasks from the list_of_optional_tasks are\n        # actually optional\n        for constraint in')
add("c10-not-first-only", "C10", "first_order_logic.py",
    "        asst = z3.Not(z3.And(_get_assertions(self.constraint)))",
    "        _a = _get_assertions(self.constraint)\n        asst = z3.Not(_a[0] if isinstance(_a, list) else _a)")
# ---- C11
add("c11-assigned-gt0", "C11", "solver.py", "                    and z3_sol[lower_bound].as_long() >= 0", "                    and z3_sol[lower_bound].as_long() > 0")
add("c11-calendar-plus1", "C11", "solver.py",
    "                        + new_task_solution.start * self.problem.delta_time", "                        + (new_task_solution.start + 1) * self.problem.delta_time")
add("c11-scheduled-string", "C11", "solver.py",
    'new_task_solution.scheduled = f"{z3_sol[task._scheduled]}" == "True"', 'new_task_solution.scheduled = f"{z3_sol[task._scheduled]}" == "true"')
add("c11-cumulative-fold-dropped", "C11", "solver.py",
    '                    resource_name = req_res.name.split("_CumulativeWorker_")[0]', '                    resource_name = req_res.name')
add("c11-assignment-start-ge1", "C11", "solver.py",
    "                if (\n                    start >= 0\n                    and end >= 0", "                if (\n                    start >= 1\n                    and end >= 0")
# ---- C12
add("c12-blocking-and", "C12", "solver.py", "        self.append_z3_assertion(z3.Or(different_assertions))", "        self.append_z3_assertion(z3.And(different_assertions))")
add("c12-only-starts-blocked", "C12", "solver.py",
    "            different_assertions.append(t._end != self._model[t._end].as_long())\n", "")
add("c12-variable-gt", "C12", "solver.py", "        self.append_z3_assertion(variable != current_variable_value)", "        self.append_z3_assertion(variable >= current_variable_value)")
# ---- C13
add("c13-pop-missing", "C13", "solver.py", "        for _ in range(num_pushed_bounds):\n            self._solver.pop()\n", "")
add("c13-initialized-never-set", "C13", "solver.py", "            self.create_objective()\n\n        self._initialized = True", "            self.create_objective()\n\n        self._initialized = False")
add("c13-export-reinitializes", "C13", "solver.py",
    '        """export the model to a smt file to be processed by another SMT solver"""\n        if not self._initialized:\n            self.initialize()',
    '        """export the model to a smt file to be processed by another SMT solver"""\n        self.initialize()')
# ---- C14
add("c14-negative-int-constant", "C05", "problem.py", "        self._unique_integer += -1\n        return self._unique_integer", "        return -1")
add("c14-point-in-past-by-name-length", "C14", "task.py",
    "            point_in_past = (\n                processscheduler.base.active_problem.get_unique_negative_integer()\n            )",
    "            point_in_past = -len(self.name)")
add("c14-class-level-counter", "C14", "task.py",
    "            point_in_past = (\n                processscheduler.base.active_problem.get_unique_negative_integer()\n            )",
    "            Task._rtmon_counter = getattr(Task, '_rtmon_counter', 0) + 1\n            point_in_past = -(1 + Task._rtmon_counter % 3)")
# ---- C15
add("c15-debug-first-only", "C15", "solver.py",
    "            for asst in assts:\n                asst_identifier", "            for asst in assts[:1]:\n                asst_identifier")
add("c15-random-skips-horizon", "C15", "solver.py",
    "            self.append_z3_assertion(task._end <= self.problem._horizon)",
    "            if not (self.random_values and task.optional):\n                self.append_z3_assertion(task._end <= self.problem._horizon)")
# ---- C16
add("c16-df-start-end-swapped", "C16", "solution.py", '                "Start": starts,\n                "End": ends,', '                "Start": ends,\n                "End": starts,')
add("c16-xlsx-start-no-plus1", "C16", "excel_io.py",
    "                    task_start + 1,  # start column", "                    task_start,  # start column")
add("c16-xlsx-merge-end-off", "C16", "excel_io.py", "                    task_end,  # end column", "                    task_end + 1,  # end column")
add("c16-json-exclude-widened", "C16", "base.py",
    'return self.model_dump_json(indent=None if compact else 4, exclude="problem")',
    'return self.model_dump_json(indent=None if compact else 4, exclude={"problem", "buffers"})')
# ---- C17
add("c17-bar-from-start-minus1", "C17", "plotter.py",
    "bar_dimension = (start - 0.05, 0.1) if length == 0 else (start, length)", "bar_dimension = (start - 0.05, 0.1) if length == 0 else (start - 1, length)")
add("c17-width-end", "C17", "plotter.py", "                    start, end - start, bar_color, text_to_display, hatch", "                    start, end, bar_color, text_to_display, hatch")
add("c17-task-mode-all-tasks", "C17", "plotter.py",
    "        tasks_to_render = (\n            solution.get_scheduled_tasks()\n        )  # get_all_tasks_but_unavailable()", "        tasks_to_render = solution.tasks")
add("c17-buffer-missing-horizon", "C17", "plotter.py", "all_x = [0] + buffer.level_change_times + [solution.horizon]", "all_x = [0] + buffer.level_change_times + [solution.horizon - 1]")
# ---- C18
add("c18-duration-int", "C18", "task.py", "    duration: PositiveInt\n", "    duration: int\n")
add("c18-work-ge-dropped", "C18", "task.py", "    work_amount: int = Field(\n        default=0,\n        ge=0,", "    work_amount: int = Field(\n        default=0,")
add("c18-select-minlen-1", "C18", "resource.py", "Field(min_length=2)", "Field(min_length=1)")
add("c18-select-gt-ge", "C18", "resource.py", "if self.nb_workers_to_select > len(self.list_of_workers):", "if self.nb_workers_to_select > len(self.list_of_workers) + 1:")
add("c18-optional-rule-raise-removed", "C18", "task_constraint.py",
    '        if not self.task.optional:\n            raise TypeError(f"Task {self.task.name} must be optional.")\n\n        self.set_z3_assertions(self.task._scheduled == self.to_be_scheduled)',
    '        self.set_z3_assertions(self.task._scheduled == self.to_be_scheduled)')
add("c18-cumulative-size-ge1", "C18", "resource.py", "    size: int = Field(gt=1)", "    size: int = Field(gt=0)")
# ---- C19
add("c19-map-wrong-name", "C19", "solver.py",
    "                    ] = higher_constraint_name", "                    ] = list(self.problem.constraints)[0]")
add("c19-core-lookup-shifted", "C19", "solver.py",
    '                            constraint_name = self._map_boolrefs_to_constraints[\n                                f"{asst}"\n                            ]',
    '                            constraint_name = sorted(self.problem.constraints)[-1]')
