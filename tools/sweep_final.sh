#!/bin/sh
# tools/sweep_final.sh : quick tier on several seeds, then the thorough tier once
./tools/sweep.sh quick 0 1 2
./tools/sweep.sh thorough 0
