#!/usr/bin/env python3
"""Writes known_findings.json from the table below (committed file, read-only
at check time).  status 'fixed' entries suppress nothing."""
import json, os
ROOT = os.path.dirname(os.path.dirname(os.path.abspath(__file__)))

FIXED = [
    ("C01", "63b0d5e", "ZeroDurationTask lacked start >= 0 (TaskStartAt -3 returned a task scheduled at -3) and an optional one never got a scheduled flag"),
    ("C03", "b12ff0c", "ScheduleNTasksInTimeIntervals exact/max did not bound the number of tasks inside the intervals from above (two tasks inside with exact 1)"),
    ("C03", "e324402", "ScheduleNTasksInTimeIntervals follow-up: uncounted tasks could straddle an interval bound (test_single_interval_3 passed only by z3's model choice)"),
    ("C02", "5bd711f", "add_required_resource(dynamic=True) admitted busy_end < busy_start"),
    ("C04", "d0f06d7", "ResourcePeriodicallyUnavailable/Interrupted on a CumulativeWorker raised AttributeError (cumulative_workers)"),
    ("C18", "d0f06d7", "well-formed periodic resource constraint on a cumulative worker rejected with AttributeError"),
    ("C04", "96ca585", "ResourcePeriodicallyUnavailable period 5 window (1,3): task 3->7 accepted although it runs into the window 6-8"),
    ("C04", "6f39683", "ResourcePeriodicallyInterrupted: fixed-duration task accepted across the next period's interruption window"),
    ("C04", "0b243df", "ResourcePeriodicallyInterrupted start/end activity mask built from the last task only (an unscheduled optional task switched all interruptions off)"),
    ("C05", "c099ec5", "optional task with release date > 0 or a deadline could not be left unscheduled (assertions outside the optional If)"),
    ("C06", "c099ec5", "release date / deadline of an optional task forced it to be scheduled"),
    ("C05", "b2dfde7", "optional task with a work amount and a worker could not be left unscheduled"),
    ("C06", "b2dfde7", "work amount of an optional task forced it to be scheduled"),
    ("C05", "63a2a12", "TasksDontOverlap (Xor) rejected two zero-duration tasks at the same instant"),
    ("C05", "f3aa22f", "DistinctWorkers over 3 common workers infeasible (flag_1 != flag_2 per common worker)"),
    ("C05", "fee5634", "Ordered/UnorderedTaskGroup without window infeasible (time_interval_length default 0); group with an unscheduled optional member infeasible"),
    ("C14", "fee5634", "OrderedTaskGroup([x,y]) with both optional tasks unscheduled was feasible or not depending on task creation order (unguarded comparison of points in the past)"),
    ("C05", "f44bb05", "WorkLoad infeasible when a busy span strictly contains the time interval (three overlap cases fired at once)"),
    ("C05", "e3eaa6a", "periodic resource constraints made a problem infeasible when an unscheduled optional task (negative instant) folds into a window"),
    ("C06", "e3eaa6a", "unscheduled optional task not inert under ResourcePeriodicallyUnavailable/Interrupted"),
    ("C06", "d4e0161", "ResourceInterrupted forced an optional variable-duration task with min_duration > 0 to be scheduled"),
    ("C06", "2be589e", "an unscheduled optional task still loaded/unloaded its buffer at its negative instant"),
    ("C06", "3f92876", "IndicatorTardiness -6 / IndicatorEarliness +6 for an unscheduled optional task"),
    ("C08", "3f92876", "tardiness/earliness value differed from the definition when an optional task is unscheduled"),
    ("C06", "7ee06a1", "ObjectiveTasksStartLatest: MinimumStartTime = negative instant of an unscheduled optional task"),
    ("C05", "c7b2fd0", "a task unloading and loading the same buffer made the problem infeasible (z3 name clash)"),
    ("C06", "f16c01f", "unscheduled optional task with delay_in listed its worker in assigned_resources"),
    ("C11", "f16c01f", "task view listed a resource for an unscheduled task although the resource view has no assignment for it"),
    ("C08", "6580d29", "resource utilization = busy * int(100/horizon): 98 at horizon 7, 24 instead of 25 at horizon 12, 0 above 100"),
    ("C08", "92e50ad", "IndicatorNumberOfTardyTasks() named itself 'Total tardiness' and overwrote IndicatorTardiness() in solution.indicators"),
    ("C08", "be16332", "IndicatorResourceUtilization / IndicatorNumberTasksAssigned always 0 for a CumulativeWorker (read the cumulative object's empty busy table)"),
    ("C07", "23c8849", "optimizer='optimize' + optimize_priority='weight' with several objectives never passed the weighted objective to z3.Optimize (arbitrary feasible schedule returned)"),
    ("C12", "286184b", "find_another_solution raised Z3Exception with any optional task (chained comparison against a string)"),
    ("C13", "341d532", "incremental optimiser never popped its 'better than incumbent' bounds: second solve()/find_another_solution() returned False on a feasible problem"),
    ("C13", "8db51a6", "export_to_smt2 raised AttributeError with optimizer='optimize'"),
    ("C16", "8db51a6", "export_to_smt2 raised AttributeError with optimizer='optimize' (z3.Optimize has no to_smt2)"),
    ("C13", "ebb7022", "second SchedulingSolver / second initialize() on a multi-objective problem raised ValueError (EquivalentIndicator registered twice)"),
    ("C14", "ebb7022", "equivalent weighted objective/indicator were registered in whatever problem was active, not in the solved one"),
    ("C16", "bee8218", "Excel task view: unscheduled task at -1 blanked its own name cell, at -2 and below silently dropped"),
    ("C10", "472b534", "Or over an operand made of several assertions (TasksContiguous, ScheduleNTasksInTimeIntervals, WorkLoad, groups) was satisfied by any single one of them (assertion lists flattened into one disjunction)"),
    ("C08", "73d9578", "utilisation -15% / reduced cost: unscheduled optional task with delay_in had an inverted (negative length) busy interval"),
    ("C06", "73d9578", "unscheduled optional task with a delayed assignment contributed a negative busy time to utilisation, cost and workload"),
    ("C06", "477d477", "OrderedTaskGroup([a, o, b]) with the optional o unscheduled no longer ordered a and b (differs from the same group with o deleted)"),
    ("C18", "3a3b797", "ScheduleNTasksInTimeIntervals(max 1) over one task and ResourceUnavailable with a repeated interval raised 'assertion ... already added'"),
    ("C05", "3a3b797", "a problem containing ScheduleNTasksInTimeIntervals(kind=max, n=1, one task) could not be built although valid schedules exist"),
    ("C16", "fbb4feb", "export_to_smt2 of a solver in debug mode: tracked assertions exported as 'identifier => assertion', so the file of an infeasible problem was satisfiable"),
    ("C05", "feceebd", "the instant of an unscheduled optional task (-task number) collided with the instant of a worker left unselected by a selection (-2, -3, ...): under a sorting-based constraint on that worker (ResourceTasksDistance / ResourceNonDelay / idle indicator) valid schedules were refused (found by the thorough tier, seed 1)"),
    ("C16", "2778609", "to_excel_file(colors=True) raised ValueError 'Invalid color value: #' for a scheduled task without any resource (and for short crc32 values): the color was cut out of the decimal digits of the checksum"),
    ("C05", "c24ab38", "a SelectWorkers naming the same worker twice (two teams sharing a member): every selection that leaves that worker out was refused (its busy interval was parked at two different past instants at once); found by the thorough tier on the selection_dup cells"),
    ("C02", "e31ff80", "a task requiring a worker directly AND through a SelectWorkers listing it (declared in that order) was accepted and the returned schedule left the directly required worker free for another task at the same time (one busy interval per (worker, task): the selection's replaced the direct one); the selection is now refused like in the other order (reported by a seeding sub-agent, reproduced by hand)"),
    ("C18", "939afbe", "ResourceNonDelay / TasksContiguous / IndicatorResourceIdle over a single task raised 'assertion And already added'"),
]

_BUF = ("optimizer='optimize' (z3.Optimize) returns non-optimal schedules, differently from run to run, as soon as the problem has "
        "a buffer: the non-concurrent encoding uses arrays, the concurrent one quantified functions, and z3 4.12 optimises "
        "neither reliably (it warns 'optimization with quantified constraints is not supported' for the latter only); the "
        "incremental optimiser is not affected. Repair would need another buffer encoding")
_BUF_IN = ("tasks t0 (fixed 2), t1 (fixed 2, optional, priority 4), t2 (variable 1..3, priority 0), NonConcurrentBuffer(initial 3, lower 0), "
           "TaskLoadBuffer(t0, 2), TaskEndBefore(t2, 3), ObjectivePriorities: incremental -> 2 every time, optimize -> 2, 3 or 5")
_FSR = ("the indicator created by ObjectiveMinimizeFlowtimeSingleResource is only bounded from below by the flow time of the "
        "resource (its min/max helpers are defined through disjunctions of implications that any task outside the interval "
        "satisfies): the value delivered with a schedule equals the definition only once the minimisation has converged; "
        "after an early stop (max_iter, time limit) it is larger than max end - min start of that schedule. A repair needs "
        "a new encoding of the min/max over the tasks inside the interval")
_FSR_IN = ("worker w0 with t0 (fixed 2), t1 (variable 1..2), t2 (fixed 1, start >= 3), horizon 7, "
           "ObjectiveMinimizeFlowtimeSingleResource(resource=w0), SchedulingSolver(max_iter=1): reported 4, schedule spans 3")
_SOC = ("a SelectWorkers may list CumulativeWorkers (resource.py expands them into _list_of_workers, which nothing uses): "
        "add_required_resource then stores the busy interval on the CumulativeWorker object itself instead of its elementary "
        "workers, so the capacity of a cumulative worker chosen through a selection is never enforced, and the task lists the "
        "cumulative worker among its assigned resources while solution.resources has no assignment for it. The repository's own "
        "test test_cumulative_select_worker_1 builds such a problem. Repair needs the selection to be propagated to the "
        "elementary workers (not a small change)")
_SOC_IN = ("CumulativeWorker cu(size=2), Worker w0; three fixed tasks of duration 2 on horizon 3, each requiring "
           "SelectWorkers([cu, w0], 1): all three are placed at [0,2] on cu (3 > size 2), and solution.resources['cu'].assignments is empty")
OPEN = [
    {"property": "C02", "key": "selection-over-cumulative-worker", "where": "processscheduler/task.py add_required_resource (SelectWorkers branch) / resource.py SelectWorkers",
     "match": {"clause": "C02.*", "direction": "admitted-invalid", "features": {"selection_over_cumulative": True}},
     "minimal_input": _SOC_IN, "description": _SOC},
    {"property": "C11", "key": "selection-over-cumulative-worker", "where": "processscheduler/solver.py build_solution / task.py add_required_resource",
     "match": {"clause": "C11.*", "features": {"selection_over_cumulative": True}},
     "minimal_input": _SOC_IN, "description": _SOC},
    {"property": "C07", "key": "flowtime-single-resource-indicator-is-an-upper-bound", "where": "processscheduler/objective.py ObjectiveMinimizeFlowtimeSingleResource",
     "match": {"clause": "C07.value_ne_definition", "direction": "wrong-value", "features": {"objective": "FlowtimeSingleResource"}},
     "minimal_input": _FSR_IN, "description": _FSR},
    {"property": "C08", "key": "flowtime-single-resource-indicator-is-an-upper-bound", "where": "processscheduler/objective.py ObjectiveMinimizeFlowtimeSingleResource",
     "match": {"clause": "C08.obj.FlowtimeSingleResource", "direction": "wrong-value", "features": {"objective": "FlowtimeSingleResource"}},
     "minimal_input": _FSR_IN, "description": _FSR},
    {"property": "C07", "key": "builtin-optimizer-suboptimal-with-buffers", "where": "processscheduler/solver.py buffer encoding + z3.Optimize",
     "match": {"clause": "C07.not_optimal_bruteforce", "direction": "suboptimal", "features": {"optimizer": "optimize", "has_buffer": True}},
     "minimal_input": _BUF_IN, "description": _BUF},
    {"property": "C07", "key": "builtin-optimizer-suboptimal-with-buffers", "where": "processscheduler/solver.py buffer encoding + z3.Optimize",
     "match": {"clause": "C07.better_schedule_exists", "direction": "suboptimal", "features": {"optimizer": "optimize", "has_buffer": True}},
     "minimal_input": _BUF_IN, "description": _BUF},
    {"property": "C07", "key": "builtin-optimizer-suboptimal-on-nonlinear-cost", "where": "processscheduler/indicator.py IndicatorResourceCost (trapezoid of a linear / polynomial cost = product of unknowns) + z3.Optimize",
     "match": {"clause": "C07.not_optimal_bruteforce", "direction": "suboptimal", "features": {"optimizer": "optimize", "nonlinear_objective": True}},
     "minimal_input": "workers w0 (LinearFunction slope 2 intercept 1) and w1 (constant 2), t0 variable 1..3 on SelectWorkers([w0, w1], 1), t1 fixed 2 on w0 starting >= 1, horizon 5, ObjectiveMinimizeResourceCost([w0, w1]), optimizer='optimize': returns 14 in some runs, the optimum is 12 (incremental: always 12)",
     "description": "with a linear or polynomial cost function the cost indicator is a non-linear integer term; z3.Optimize then returns non-optimal schedules in some runs (no warning, answer 'sat'); the incremental optimiser is not affected. Not repairable in the library short of a linearised cost encoding"},
    {"property": "C07", "key": "builtin-optimizer-suboptimal-on-nonlinear-cost", "where": "processscheduler/indicator.py IndicatorResourceCost + z3.Optimize",
     "match": {"clause": "C07.better_schedule_exists", "direction": "suboptimal", "features": {"optimizer": "optimize", "nonlinear_objective": True}},
     "minimal_input": "see the C07.not_optimal_bruteforce entry of the same key",
     "description": "with a linear or polynomial cost function the cost indicator is a non-linear integer term; z3.Optimize then returns non-optimal schedules in some runs (no warning, answer 'sat'); the incremental optimiser is not affected. Not repairable in the library short of a linearised cost encoding"},
    {"property": "C15", "key": "builtin-optimizer-suboptimal-with-buffers", "where": "processscheduler/solver.py buffer encoding + z3.Optimize",
     "match": {"clause": "C15.optimum_differs", "direction": "differs", "features": {"optimize_with_buffer": True}},
     "minimal_input": _BUF_IN, "description": _BUF},
    {"property": "C10", "key": "negated-operand-with-auxiliary-unknowns",
     "where": "processscheduler/first_order_logic.py Not / Xor over util.sort_no_duplicates, TaskGroup, ScheduleNTasksInTimeIntervals, WorkLoad encodings",
     "match": {"clause": "C10.*", "direction": "admitted-invalid", "features": {"aux_under_negation": True}},
     "minimal_input": "tasks t0 (fixed 1), t1 (variable 1..2), horizon 4; Not(constraint=TasksContiguous([t0, t1])); pin t0=[0,1], t1=[1,2]: "
                      "the contiguous placement is admitted",
     "description": "Not/Xor over an operand whose encoding introduces auxiliary unknowns is satisfiable by falsifying the "
                    "auxiliary definitions (sorted copies, group bounds, in-interval booleans), so the negation admits "
                    "placements on which the operand holds; repairing it needs an encoding of those constraints without "
                    "existential auxiliaries (not a small change)"},
    {"property": "C18", "key": "distance-nondelay-on-cumulative-worker-rejected",
     "where": "processscheduler/resource_constraint.py ResourceTasksDistance / ResourceNonDelay read resource._busy_intervals of the CumulativeWorker object (always empty)",
     "match": {"clause": "C18.rejected_well_formed", "direction": "rejected", "features": {"rule": "cumulative_sorted_busy_table"}},
     "minimal_input": "CumulativeWorker(size=2) required by two tasks; ResourceNonDelay(resource=cumulative) raises AssertionError "
                      "('not assigned to any task'), ResourceTasksDistance raises 'has to be assigned to at least 2 tasks'",
     "description": "ResourceTasksDistance and ResourceNonDelay accept a CumulativeWorker by type but look at the busy table of the "
                    "cumulative object itself instead of its elementary workers, so an assigned cumulative worker is rejected as "
                    "unassigned; what 'consecutive tasks' means on a resource that runs tasks in parallel is not documented, so no "
                    "repair is attempted"},
    {"property": "C13", "key": "box-mode-successive-solves-end-with-failure",
     "where": "processscheduler/solver.py solve() -> z3.Optimize.check() with priority 'box' and >= 2 objectives",
     "match": {"clause": "C13.false_on_feasible", "direction": "lost",
               "features": {"op": "S", "optimizer": "optimize", "priority": "box", "multi_objective": True}},
     "minimal_input": "horizon 4, t0 (fixed 2) and t1 (fixed 1) on one worker, ObjectiveMaximizeIndicator(start t0, weight 2) and "
                      "ObjectiveMaximizeIndicator(end t1), SchedulingSolver(optimizer='optimize', optimize_priority='box'): "
                      "solve() four times -> schedule, schedule, False, schedule (pure z3: Optimize with two objectives in box "
                      "mode answers sat, sat, unsat, sat to four check() calls)",
     "description": "in box mode z3 hands out the per-objective optimal models one check() at a time and marks the end of the "
                    "list with unsat, exactly as it does with the Pareto front; the library passes that unsat on as 'no solution' "
                    "for a feasible problem on the (number of objectives + 1)-th solve(). The property exempts only the Pareto "
                    "mode, so this is recorded; a repair has to decide what repeated solves mean in box mode (reset the "
                    "optimiser? repeat the last model?), which is the maintainers' call"},
]


def main():
    out = {"comment": "fixed entries record repaired defects and suppress nothing; open entries are matched by mechanism "
                      "(clause + direction + structural features), never by case hash or drawn values",
           "findings": []}
    for prop, commit, what in FIXED:
        out["findings"].append({"property": prop, "status": "fixed", "commit": commit,
                                "record": f"fixed: property={prop} {commit} {what}", "description": what})
    for e in OPEN:
        out["findings"].append(dict(e, status="open"))
    with open(os.path.join(ROOT, "known_findings.json"), "w") as f:
        json.dump(out, f, indent=1)
        f.write("\n")


if __name__ == "__main__":
    main()
