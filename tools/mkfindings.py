#!/usr/bin/env python3
"""Writes known_findings.json from the table below (committed file, read-only
at check time).  status 'fixed' entries suppress nothing."""
import json, os
ROOT = os.path.dirname(os.path.dirname(os.path.abspath(__file__)))

FIXED = [
    ("C01", "63b0d5e", "ZeroDurationTask lacked start >= 0 (TaskStartAt -3 returned a task scheduled at -3) and an optional one never got a scheduled flag"),
    ("C03", "b12ff0c", "ScheduleNTasksInTimeIntervals exact/max did not bound the number of tasks inside the intervals from above (two tasks inside with exact 1)"),
    ("C03", "e324402", "ScheduleNTasksInTimeIntervals follow-up: uncounted tasks could straddle an interval bound (test_single_interval_3 passed only by z3's model choice)"),
    ("C02", "5bd711f", "add_required_resource(dynamic=True) admitted busy_end < busy_start"),
    ("C04", "d0f06d7", "ResourcePeriodicallyUnavailable/Interrupted on a CumulativeWorker raised AttributeError (cumulative_workers)"),
    ("C18", "d0f06d7", "well-formed periodic resource constraint on a cumulative worker rejected with AttributeError"),
    ("C04", "96ca585", "ResourcePeriodicallyUnavailable period 5 window (1,3): task 3->7 accepted although it runs into the window 6-8"),
    ("C04", "6f39683", "ResourcePeriodicallyInterrupted: fixed-duration task accepted across the next period's interruption window"),
    ("C04", "0b243df", "ResourcePeriodicallyInterrupted start/end activity mask built from the last task only (an unscheduled optional task switched all interruptions off)"),
    ("C05", "c099ec5", "optional task with release date > 0 or a deadline could not be left unscheduled (assertions outside the optional If)"),
    ("C06", "c099ec5", "release date / deadline of an optional task forced it to be scheduled"),
    ("C05", "b2dfde7", "optional task with a work amount and a worker could not be left unscheduled"),
    ("C06", "b2dfde7", "work amount of an optional task forced it to be scheduled"),
    ("C05", "63a2a12", "TasksDontOverlap (Xor) rejected two zero-duration tasks at the same instant"),
    ("C05", "f3aa22f", "DistinctWorkers over 3 common workers infeasible (flag_1 != flag_2 per common worker)"),
    ("C05", "fee5634", "Ordered/UnorderedTaskGroup without window infeasible (time_interval_length default 0); group with an unscheduled optional member infeasible"),
    ("C14", "fee5634", "OrderedTaskGroup([x,y]) with both optional tasks unscheduled was feasible or not depending on task creation order (unguarded comparison of points in the past)"),
    ("C05", "f44bb05", "WorkLoad infeasible when a busy span strictly contains the time interval (three overlap cases fired at once)"),
    ("C05", "e3eaa6a", "periodic resource constraints made a problem infeasible when an unscheduled optional task (negative instant) folds into a window"),
    ("C06", "e3eaa6a", "unscheduled optional task not inert under ResourcePeriodicallyUnavailable/Interrupted"),
    ("C06", "d4e0161", "ResourceInterrupted forced an optional variable-duration task with min_duration > 0 to be scheduled"),
    ("C06", "2be589e", "an unscheduled optional task still loaded/unloaded its buffer at its negative instant"),
    ("C06", "3f92876", "IndicatorTardiness -6 / IndicatorEarliness +6 for an unscheduled optional task"),
    ("C08", "3f92876", "tardiness/earliness value differed from the definition when an optional task is unscheduled"),
    ("C06", "7ee06a1", "ObjectiveTasksStartLatest: MinimumStartTime = negative instant of an unscheduled optional task"),
    ("C05", "c7b2fd0", "a task unloading and loading the same buffer made the problem infeasible (z3 name clash)"),
    ("C06", "f16c01f", "unscheduled optional task with delay_in listed its worker in assigned_resources"),
    ("C11", "f16c01f", "task view listed a resource for an unscheduled task although the resource view has no assignment for it"),
]

OPEN = [
]


def main():
    out = {"comment": "fixed entries record repaired defects and suppress nothing; open entries are matched by mechanism "
                      "(clause + direction + structural features), never by case hash or drawn values",
           "findings": []}
    for prop, commit, what in FIXED:
        out["findings"].append({"property": prop, "status": "fixed", "commit": commit,
                                "record": f"fixed: property={prop} {commit} {what}", "description": what})
    for e in OPEN:
        out["findings"].append(dict(e, status="open"))
    with open(os.path.join(ROOT, "known_findings.json"), "w") as f:
        json.dump(out, f, indent=1)
        f.write("\n")


if __name__ == "__main__":
    main()
