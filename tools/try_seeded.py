#!/usr/bin/env python3
"""tools/try_seeded.py <worktree> <seed-id> <prop> [more props...]
Confirms a sub-agent's seeded change in its scratch worktree (demo fails with the
change, passes without; suite green with the change) and runs the named quick
checks against the changed worktree (RTMON_REPO).  Saves /verif/seeded/<seed-id>/."""
import glob
import json
import os
import shutil
import subprocess
import sys
import time

ROOT = os.path.dirname(os.path.dirname(os.path.abspath(__file__)))


def sh(cmd, cwd, env=None, timeout=3600):
    e = dict(os.environ)
    e.update(env or {})
    p = subprocess.run(cmd, cwd=cwd, env=e, capture_output=True, text=True, timeout=timeout, shell=isinstance(cmd, str))
    return p.returncode, p.stdout, p.stderr


def main():
    wt, sid, props = sys.argv[1], sys.argv[2], sys.argv[3:]
    env = {"PYTHONPATH": wt}
    demo = sorted(glob.glob(os.path.join(wt, "demo_*.py")))[0]
    rc, patch, _ = sh("git diff -- processscheduler", wt)
    tmp_patch = os.path.join(wt, ".seed_patch.diff")
    with open(tmp_patch, "w") as f:
        f.write(patch)
    rc_with, out_with, _ = sh(["/venv/bin/python", demo], wt, env, 900)
    # (git stash is shared between worktrees: use apply -R / apply)
    sh(f"git apply -R {tmp_patch}", wt)
    rc_without, _o, _e = sh(["/venv/bin/python", demo], wt, env, 900)
    sh(f"git apply {tmp_patch}", wt)
    os.remove(tmp_patch)
    t0 = time.time()
    rc_suite, out_suite, _ = sh(["/venv/bin/python", "-m", "pytest", "-q", "-p", "no:cacheprovider", "-n", "8", "--dist",
                                 "loadfile", "test"], wt, env, 3600)
    tail = [l for l in out_suite.strip().splitlines() if "passed" in l or "failed" in l][-1:]
    failed = [l for l in out_suite.splitlines() if l.startswith("FAILED") and "plotly" not in l and "test_gantt_with_buffers" not in l]
    for f in glob.glob(os.path.join(wt, "*.xlsx")) + glob.glob(os.path.join(wt, "tst.csv")):
        if not f.endswith("excavator_nb.xlsx_keep"):
            pass
    meta = {"id": sid, "worktree": wt, "demo": os.path.basename(demo), "demo_exit_with_change": rc_with,
            "demo_exit_without_change": rc_without, "demo_output_with_change": out_with[-600:],
            "suite_summary_with_change": tail, "suite_unexpected_failures": failed, "checks": {}}
    ok = rc_with == 1 and rc_without == 0 and not failed
    print(f"{sid}: demo with={rc_with} without={rc_without} suite={tail} unexpected_failures={len(failed)} -> {'CONFIRMED' if ok else 'NOT CONFIRMED'}")
    for prop in props:
        scratch = f"/tmp/rtmon_seeded_{sid}_{prop}"
        e2 = {"RTMON_REPO": wt, "PYTHONPATH": wt, "RTMON_EVIDENCE_DIR": os.path.join(scratch, "evidence"),
              "RTMON_REPLAY_DIR": os.path.join(scratch, "replays")}
        t1 = time.time()
        rcc, outc, _ = sh(["./check", prop, "--tier", "quick"], ROOT, e2, 7200)
        viol = [l for l in outc.splitlines() if l.startswith("VIOLATION")]
        meta["checks"][prop] = {"cmd": f"RTMON_REPO={wt} PYTHONPATH={wt} ./check {prop} --tier quick", "exit": rcc,
                                "violations": [v[:400] for v in viol[:5]], "wall_s": round(time.time() - t1, 1),
                                "summary": [l for l in outc.splitlines() if l.startswith(prop)][-1:]}
        print(f"  {prop}: exit={rcc} {'CAUGHT' if rcc == 1 and viol else 'MISSED'} {viol[0][:220] if viol else ''}")
        shutil.rmtree(scratch, ignore_errors=True)
    dst = os.path.join(ROOT, "seeded", sid)
    os.makedirs(dst, exist_ok=True)
    with open(os.path.join(dst, "patch.diff"), "w") as f:
        f.write(patch)
    shutil.copy(demo, os.path.join(dst, os.path.basename(demo)))
    if os.path.exists(os.path.join(wt, "NOTES.md")):
        shutil.copy(os.path.join(wt, "NOTES.md"), os.path.join(dst, "NOTES.md"))
    meta["confirmed"] = ok
    needs_path = os.path.join(ROOT, "seeded", "needs.json")
    if os.path.exists(needs_path):
        nd = json.load(open(needs_path)).get(sid)
        if nd:
            meta["property"], meta["needs"] = nd
    meta["ran"] = ("demo with and without the change in the scratch worktree (git apply -R / git apply), the repository suite "
                   "with the change (pytest -n 8 --dist loadfile), then the listed quick checks against the changed worktree")
    with open(os.path.join(dst, "meta.json"), "w") as f:
        json.dump(meta, f, indent=1)


if __name__ == "__main__":
    main()
