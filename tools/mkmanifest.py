#!/usr/bin/env python3
"""Regenerates MANIFEST.json from the table below (kept in one place so the
manifest stays valid while checks are added)."""
import json
import os

ROOT = os.path.dirname(os.path.dirname(os.path.abspath(__file__)))

CHECKS = {
    "C01": ("runtime monitoring: pin-probe grids + steered optimisation, refsem oracle on every returned schedule",
            "Every returned schedule of ~9k (quick) / ~100k (thorough) monitored executions of the real solver is judged "
            "against the documented task-timing semantics; the candidate grid of single-task problems is walked "
            "completely (every start in [-2,H+1], every duration) so that a missing or weakened timing assertion is "
            "driven to a returned schedule that exhibits it.", "7 C01"),
}

NOT_YET = {}
for i in range(1, 20):
    pid = f"C{i:02d}"
    if pid not in CHECKS:
        NOT_YET[pid] = "monitor under construction in this round (design in DESIGN.md section 7); not claimed until its check runs clean"


def main():
    checks = []
    for pid, (tech, text, ref) in sorted(CHECKS.items()):
        checks.append({
            "property_id": pid,
            "quick_cmd": f"./check {pid} --tier quick",
            "thorough_cmd": f"./check {pid} --tier thorough",
            "evidence_file": f"evidence/{pid}.json",
            "replay_cmd_template": f"./check {pid} --replay {{path}}",
            "engine": "rtmon",
            "level_claimed": {"category": "exploration", "text": text, "design_ref": f"DESIGN.md section {ref}"},
            "level_note": ("Trusted base: the z3-free reference semantics in rtmon/refsem.py (written from docs and the "
                           "property statement, self-tested on hand-made schedules), CPython, z3 answering sat/unsat "
                           "definitively on micro instances. Claims hold only for the executions produced."),
            "technique": tech,
        })
    man = {
        "version": 1,
        "setup_cmd": "/venv/bin/python -m compileall -q rtmon && ./check --selftest",
        "hooks": {
            "guard": "RTMON_INSTRUMENT",
            "enable": "harness-side only: rtmon/instrument.py wraps z3.Solver/z3.Optimize and SchedulingSolver methods at "
                      "class level inside the worker processes; /repo carries no hook code",
            "baseline_off_cmd": "cd /repo && /venv/bin/python -m pytest -ra -q -p no:cacheprovider --timeout=900 "
                                "--continue-on-collection-errors",
            "source_commits": [],
            "add_only": True,
        },
        "engines": [{"name": "rtmon", "path": "rtmon/", "serves_properties": sorted(CHECKS),
                     "kind_free_text": "runtime monitoring harness: source-free instrumentation of the real library, "
                                       "seeded workload generators, z3-free reference oracles, offline history checkers"}],
        "checks": checks,
        "not_applicable": [{"property_id": k, "reason": v} for k, v in sorted(NOT_YET.items())],
        "notes": "Exit codes: 0 held (KNOWN-FINDING lines for listed findings), 1 VIOLATION, 2 INCONCLUSIVE (coverage floors unmet).",
    }
    with open(os.path.join(ROOT, "MANIFEST.json"), "w") as f:
        json.dump(man, f, indent=1)
        f.write("\n")


if __name__ == "__main__":
    main()
