#!/usr/bin/env python3
"""Regenerates MANIFEST.json from the table below (kept in one place so the
manifest stays valid while checks are added)."""
import json
import os

ROOT = os.path.dirname(os.path.dirname(os.path.abspath(__file__)))

CHECKS = {
    "C01": ("runtime monitoring: pin-probe grids + steered optimisation, refsem oracle on every returned schedule",
            "Every returned schedule of ~9k (quick) / ~100k (thorough) monitored executions of the real solver is judged "
            "against the documented task-timing semantics; the candidate grid of single-task problems is walked "
            "completely (every start in [-2,H+1], every duration) so that a missing or weakened timing assertion is "
            "driven to a returned schedule that exhibits it.", "7 C01"),
    "C02": ("runtime monitoring: catalogue of resource micro-problems, every placement/selection/dynamic span pinned, refsem oracle",
            "Capacity, assignment, selection and work-amount clauses are evaluated on every schedule the real solver returns "
            "for ~10k pinned candidates (all pair placements, all selection subsets, inverted and escaping dynamic spans) "
            "plus random mixtures; a candidate that breaks a clause must be refused, and is reported with its witness when "
            "it is returned instead.", "7 C02"),
    "C03": ("runtime monitoring: task-constraint catalogue x task-type mixes, whole placement grid pinned, refsem oracle",
            "One clause per constraint kind and mode; each catalogue cell's placement grid is executed completely on the "
            "real solver (~19k executions quick) and every returned schedule judged; refusals of clause-breaking "
            "candidates are counted per clause.", "7 C03"),
    "C04": ("runtime monitoring: resource-constraint catalogue (plain, cumulative, via selection), placement grid pinned, refsem oracle",
            "Unavailability (one-off and periodic over at least two periods, offsets and activity windows), workload, "
            "distance, non-delay, interruption and same/distinct-worker clauses judged on every returned schedule of "
            "~11k executions (quick).", "7 C04"),
    "C05": ("runtime monitoring: every strong-valid candidate of the catalogues pinned; refusal = violation; automatic mechanism minimisation",
            "Completeness against the strong reading of the reference semantics: ~24k (quick) enumerated valid candidates "
            "over the C01-C04/C06/C09 catalogues and random compositions are each pinned and must be admitted by the "
            "real solver; refusals are minimised to the responsible elements.", "7 C05"),
    "C06": ("runtime monitoring: differential executions (unscheduled vs deleted, scheduled vs mandatory) + inertness clauses on every solution",
            "Differential verdicts of fresh solver instances (~33k executions quick) need no reference semantics: an "
            "unscheduled optional task must leave exactly the schedules of the problem without it; inertness of the report "
            "(assignments, buffers, indicators, objectives) and the scheduling rules are judged on every returned schedule.",
            "7 C06"),
    "C09": ("runtime monitoring: buffer catalogue, every access-instant placement incl. ties pinned, replay oracle on reported levels",
            "Reported level sequences are compared with the replay of the accesses for every placement of the accessing "
            "tasks on the horizon (exhaustive per cell), both buffer kinds, all bound combinations; extrema are steered "
            "with both optimisers.", "7 C09"),
    "C11": ("runtime monitoring: field-by-field consistency post-condition on every SchedulingSolution built, steered over the resource catalogue",
            "Universal post-condition (task view <=> resource view, spans, cumulative folding, horizon, calendar "
            "arithmetic, report = model) evaluated on ~3k steered solutions (quick) over calendar and horizon variants.",
            "7 C11"),
}

NOT_YET = {}
for i in range(1, 20):
    pid = f"C{i:02d}"
    if pid not in CHECKS:
        NOT_YET[pid] = "monitor under construction in this round (design in DESIGN.md section 7); not claimed until its check runs clean"


def main():
    checks = []
    for pid, (tech, text, ref) in sorted(CHECKS.items()):
        checks.append({
            "property_id": pid,
            "quick_cmd": f"./check {pid} --tier quick",
            "thorough_cmd": f"./check {pid} --tier thorough",
            "evidence_file": f"evidence/{pid}.json",
            "replay_cmd_template": f"./check {pid} --replay {{path}}",
            "engine": "rtmon",
            "level_claimed": {"category": "exploration", "text": text, "design_ref": f"DESIGN.md section {ref}"},
            "level_note": ("Trusted base: the z3-free reference semantics in rtmon/refsem.py (written from docs and the "
                           "property statement, self-tested on hand-made schedules), CPython, z3 answering sat/unsat "
                           "definitively on micro instances. Claims hold only for the executions produced."),
            "technique": tech,
        })
    man = {
        "version": 1,
        "setup_cmd": "/venv/bin/python -m compileall -q rtmon && ./check --selftest",
        "hooks": {
            "guard": "RTMON_INSTRUMENT",
            "enable": "harness-side only: rtmon/instrument.py wraps z3.Solver/z3.Optimize and SchedulingSolver methods at "
                      "class level inside the worker processes; /repo carries no hook code",
            "baseline_off_cmd": "cd /repo && /venv/bin/python -m pytest -ra -q -p no:cacheprovider --timeout=900 "
                                "--continue-on-collection-errors",
            "source_commits": [],
            "add_only": True,
        },
        "engines": [{"name": "rtmon", "path": "rtmon/", "serves_properties": sorted(CHECKS),
                     "kind_free_text": "runtime monitoring harness: source-free instrumentation of the real library, "
                                       "seeded workload generators, z3-free reference oracles, offline history checkers"}],
        "checks": checks,
        "not_applicable": [{"property_id": k, "reason": v} for k, v in sorted(NOT_YET.items())],
        "notes": "Exit codes: 0 held (KNOWN-FINDING lines for listed findings), 1 VIOLATION, 2 INCONCLUSIVE (coverage floors unmet).",
    }
    with open(os.path.join(ROOT, "MANIFEST.json"), "w") as f:
        json.dump(man, f, indent=1)
        f.write("\n")


if __name__ == "__main__":
    main()
