#!/usr/bin/env python3
"""Regenerates MANIFEST.json from the table below (kept in one place so the
manifest stays valid while checks are added)."""
import json
import os

ROOT = os.path.dirname(os.path.dirname(os.path.abspath(__file__)))

CHECKS = {
    "C01": ("runtime monitoring: pin-probe grids + steered optimisation, refsem oracle on every returned schedule",
            "Every returned schedule of ~9k (quick) / ~100k (thorough) monitored executions of the real solver is judged "
            "against the documented task-timing semantics; the candidate grid of single-task problems is walked "
            "completely (every start in [-2,H+1], every duration) so that a missing or weakened timing assertion is "
            "driven to a returned schedule that exhibits it.", "7 C01"),
    "C02": ("runtime monitoring: catalogue of resource micro-problems, every placement/selection/dynamic span pinned, refsem oracle",
            "Capacity, assignment, selection and work-amount clauses are evaluated on every schedule the real solver returns "
            "for ~10k pinned candidates (all pair placements, all selection subsets, inverted and escaping dynamic spans) "
            "plus random mixtures; a candidate that breaks a clause must be refused, and is reported with its witness when "
            "it is returned instead.", "7 C02"),
    "C03": ("runtime monitoring: task-constraint catalogue x task-type mixes, whole placement grid pinned, refsem oracle",
            "One clause per constraint kind and mode; each catalogue cell's placement grid is executed completely on the "
            "real solver (~19k executions quick) and every returned schedule judged; refusals of clause-breaking "
            "candidates are counted per clause.", "7 C03"),
    "C04": ("runtime monitoring: resource-constraint catalogue (plain, cumulative, via selection), placement grid pinned, refsem oracle",
            "Unavailability (one-off and periodic over at least two periods, offsets and activity windows), workload, "
            "distance, non-delay, interruption and same/distinct-worker clauses judged on every returned schedule of "
            "~11k executions (quick).", "7 C04"),
    "C05": ("runtime monitoring: every strong-valid candidate of the catalogues pinned; refusal = violation; automatic mechanism minimisation",
            "Completeness against the strong reading of the reference semantics: ~24k (quick) enumerated valid candidates "
            "over the C01-C04/C06/C09 catalogues and random compositions are each pinned and must be admitted by the "
            "real solver; refusals are minimised to the responsible elements.", "7 C05"),
    "C06": ("runtime monitoring: differential executions (unscheduled vs deleted, scheduled vs mandatory) + inertness clauses on every solution",
            "Differential verdicts of fresh solver instances (~33k executions quick) need no reference semantics: an "
            "unscheduled optional task must leave exactly the schedules of the problem without it; inertness of the report "
            "(assignments, buffers, indicators, objectives) and the scheduling rules are judged on every returned schedule.",
            "7 C06"),
    "C09": ("runtime monitoring: buffer catalogue, every access-instant placement incl. ties pinned, replay oracle on reported levels",
            "Reported level sequences are compared with the replay of the accesses for every placement of the accessing "
            "tasks on the horizon (exhaustive per cell), both buffer kinds, all bound combinations; extrema are steered "
            "with both optimisers.", "7 C09"),
    "C11": ("runtime monitoring: field-by-field consistency post-condition on every SchedulingSolution built (first and later solutions of one solver), steered over the resource catalogue and calendars",
            "Universal post-condition (task view <=> resource view, spans, cumulative folding, horizon, calendar "
            "arithmetic, report = model) evaluated on ~3k steered solutions (quick) over calendar and horizon variants.",
            "7 C11"),
    "C07": ("runtime monitoring + fault injection: optimiser runs undisturbed, interrupted (max_iter, virtual clock, forced unknown) and on problems declared in stages; two independent reference optima; found-vs-announced-vs-returned schedules at the z3 check() boundary",
            "Undisturbed runs of both optimisers are compared with a brute-force optimum over the enumerated valid set and with "
            "a fresh instance asked for a strictly better value; every interruption point of the incremental loop is injected "
            "and the returned schedule must be valid and equal to the best incumbent the loop reported.", "7 C07"),
    "C08": ("runtime monitoring: indicator catalogue, placements pinned and extrema steered, definition recomputed by refsem on the reported schedule",
            "Each reported indicator value is recomputed from its documented definition on the very schedule it was delivered "
            "with, over horizons that do and do not divide 100, cost coefficients incl. 0/1/odd, optional and selected "
            "assignments; indicators are also minimised and maximised with both optimisers.", "7 C08"),
    "C10": ("runtime monitoring: truth-table differential over fresh solver instances (nested and shared operands) + pinned applied flags of optional constraints and connectives + refsem clauses",
            "admit(P + F(A,B), c) is compared with F(admit(P + A, c), admit(P + B, c)) for the six connectives, nested formulas "
            "to depth 3 and every candidate of the placement grid (all operand valuation patterns reached and counted); "
            "optional constraints are decided by pinning every subset of applied flags.", "7 C10"),
    "C12": ("runtime monitoring: enumeration histories of one solver object (with and without objective, requests after a failure) checked offline against the fresh-instance reference set",
            "solve / find_another_solution* histories run to exhaustion on bounded problems must be duplicate-free walks of "
            "exactly the reference set T(P) obtained from fresh single-use instances; variable requests must change the variable.",
            "7 C12"),
    "C13": ("runtime monitoring: call histories (exhaustive to length 4, random to 10, two interleaved objects, all optimiser configurations incl. max_iter) against a sequential excluded-set model + frame-depth invariant",
            "Every history over the public solver calls is replayed on the real object and judged by a 30-line sequential "
            "model whose state is the set of legitimately excluded timings; ~20k executions (quick).", "7 C13"),
    "C14": ("runtime monitoring: metamorphic twins (renaming incl. computed name collisions and same names across kinds, real permutations of every declaration list, interleaved declaration around another problem's solve) and fresh-interpreter reference vs nasty in-process prefixes",
            "Feasibility verdict, optimum and the admit() vector over a shared sample of timing candidates must be invariant "
            "under consistent renaming, permutation inside declaration stages, and under any prefix of other problems built "
            "or solved earlier in the same process (compared with a fresh interpreter).", "7 C14"),
    "C15": ("runtime monitoring: configuration grid (optimizer x priority x parallel x random x debug x logics x verbosity x intermediate states) with fragment analysis, every configuration asked twice, soundness clauses on every schedule",
            "Each Spec is solved under ~60 configurations; every returned schedule is judged by the C01-C04/C09 clauses and all "
            "definite answers inside the selected logic's fragment must agree on feasibility and optimum.", "7 C15"),
    "C16": ("runtime monitoring: exports under every documented argument read back with independent readers (json, csv, data frame, zip+xml, external z3 binary before and after solves), round trips",
            "JSON/CSV/XLSX bytes written by the library are parsed by readers that share no code with it and compared field by "
            "field with the solution; SMT-LIB exports are consumed by the external z3 4.8.12 binary and its model is pinned "
            "back into a fresh instance.", "7 C16"),
    "C17": ("runtime monitoring: matplotlib artists of the rendered figure (Agg) compared with the reported assignments",
            "Bar rectangles, markers, labels, row labels and buffer step lines are read from the Axes and compared with the "
            "solution in both render modes over solutions with optional/zero-duration tasks, cumulative workers, buffers.",
            "7 C17"),
    "C18": ("runtime monitoring: boundary-value table of constructor calls (fresh problem each, fresh interpreter for the no-problem rows) + catalogue build converse",
            "Accept-or-raise outcome of ~130 constructor calls on both sides of each boundary named by the statement, and of "
            "~1000 well-formed catalogue Specs, observed at the constructor boundary.", "7 C18"),
    "C19": ("runtime monitoring: debug-mode runs on infeasible Specs, listed Constraint objects captured at the print boundary, reduced Spec re-solved; debug-vs-plain differential on pinned problems and on call sequences",
            "The constraint objects the solver lists as conflicting are captured from its own print calls; the Spec reduced "
            "to them plus the basic rules is re-solved by a fresh non-debug instance and must be unsat; verdicts and "
            "schedules under debug are compared with non-debug runs.", "7 C19"),
}

NOT_YET = {}
for i in range(1, 20):
    pid = f"C{i:02d}"
    if pid not in CHECKS:
        NOT_YET[pid] = "monitor under construction in this round (design in DESIGN.md section 7); not claimed until its check runs clean"


def main():
    checks = []
    for pid, (tech, text, ref) in sorted(CHECKS.items()):
        checks.append({
            "property_id": pid,
            "quick_cmd": f"./check {pid} --tier quick",
            "thorough_cmd": f"./check {pid} --tier thorough",
            "evidence_file": f"evidence/{pid}.json",
            "replay_cmd_template": f"./check {pid} --replay {{path}}",
            "engine": "rtmon",
            "level_claimed": {"category": "exploration", "text": text, "design_ref": f"DESIGN.md section {ref}"},
            "level_note": ("Trusted base: the z3-free reference semantics in rtmon/refsem.py (written from docs and the "
                           "property statement, self-tested on hand-made schedules), CPython, z3 answering sat/unsat "
                           "definitively on micro instances. Claims hold only for the executions produced."),
            "technique": tech,
        })
    man = {
        "version": 1,
        "setup_cmd": "/venv/bin/python -m compileall -q rtmon && ./check --selftest",
        "hooks": {
            "guard": "RTMON_INSTRUMENT",
            "enable": "harness-side only: rtmon/instrument.py wraps z3.Solver/z3.Optimize and SchedulingSolver methods at "
                      "class level inside the worker processes; /repo carries no hook code",
            "baseline_off_cmd": "cd /repo && /venv/bin/python -m pytest -ra -q -p no:cacheprovider --timeout=900 "
                                "--continue-on-collection-errors",
            "source_commits": [],
            "add_only": True,
        },
        "engines": [{"name": "rtmon", "path": "rtmon/", "serves_properties": sorted(CHECKS),
                     "kind_free_text": "runtime monitoring harness: source-free instrumentation of the real library, "
                                       "seeded workload generators, z3-free reference oracles, offline history checkers"}],
        "checks": checks,
        "not_applicable": [{"property_id": k, "reason": v} for k, v in sorted(NOT_YET.items())],
        "notes": "Exit codes: 0 held (KNOWN-FINDING lines for listed findings), 1 VIOLATION, 2 INCONCLUSIVE (coverage floors unmet).",
    }
    with open(os.path.join(ROOT, "MANIFEST.json"), "w") as f:
        json.dump(man, f, indent=1)
        f.write("\n")


if __name__ == "__main__":
    main()
