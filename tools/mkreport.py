#!/usr/bin/env python3
"""Regenerates section 12 of DESIGN.md (which checks catch which changes) from
selftest/results.json and seeded/*/meta.json."""
import glob
import json
import os
import re
import sys

ROOT = os.path.dirname(os.path.dirname(os.path.abspath(__file__)))
sys.path.insert(0, os.path.join(ROOT, "selftest"))
import breaks  # noqa: E402

BEGIN, END = "<!-- BEGIN GENERATED SECTION 12 -->", "<!-- END GENERATED SECTION 12 -->"


def clause_of(line):
    m = re.search(r"clause=(\S+)", line or "")
    return m.group(1) if m else ""


def main():
    res = {}
    p = os.path.join(ROOT, "selftest", "results.json")
    if os.path.exists(p):
        for r in json.load(open(p)):
            res[r["id"]] = r
    out = [BEGIN, "", "### 12.1 Deliberate breaks (selftest/breaks.py, applied to scratch copies, quick tier)", "",
           "| break | check | result | first clause reported |", "|---|---|---|---|"]
    for b in breaks.B:
        r = res.get(b["id"])
        if r is None:
            out.append(f"| {b['id']} | {b['prop']} | not run | |")
        else:
            out.append(f"| {b['id']} | {r['prop']} | {r['status']} | {clause_of(r.get('first_violation'))} |")
    caught = sum(1 for b in breaks.B if res.get(b["id"], {}).get("status") == "caught")
    out += ["", f"{caught} of {len(breaks.B)} breaks caught by the quick tier of the named check.", "",
            "### 12.2 Independently written changes (sub-agents given only the property text; seeded/<id>/)", "",
            "| seeded change | breaks | needs, to manifest | confirmed (demo fails with / passes without, suite green) | checks run against the scratch worktree → result / patch applied to /repo itself → result |",
            "|---|---|---|---|---|"]
    for mp in sorted(glob.glob(os.path.join(ROOT, "seeded", "*", "meta.json"))):
        m = json.load(open(mp))
        checks = "; ".join(f"{k}: {'CAUGHT ' + clause_of((v['violations'] or [''])[0]) if v['exit'] == 1 else 'missed (exit %s)' % v['exit']}"
                           for k, v in m.get("checks", {}).items())
        onrepo = "; ".join(f"{k}: {'CAUGHT' if v['exit'] == 1 else 'missed (exit %s)' % v['exit']}"
                           for k, v in (m.get("applied_to_repo") or {}).items())
        if m.get("obsolete"):
            onrepo = "obsolete on the current tree (equivalent since a later fix; see meta.json)"
        if m.get("within_band"):
            onrepo = (onrepo + "; " if onrepo else "") + "NOT reported by design (ambiguity band, see meta.json)"
        checks += f" / on /repo: {onrepo or 'not run'}"
        out.append(f"| {m['id']} | {m.get('property', m['id'][:3])} | {m.get('needs', '')} | "
                   f"{'yes' if m.get('confirmed') else 'NO'} ({m.get('demo_exit_with_change')}/{m.get('demo_exit_without_change')}, "
                   f"{(m.get('suite_summary_with_change') or ['?'])[0][:40]}) | {checks} |")
    out += ["", END]
    path = os.path.join(ROOT, "DESIGN.md")
    s = open(path).read()
    block = "\n".join(out)
    if BEGIN in s:
        s = s[:s.index(BEGIN)] + block + s[s.index(END) + len(END):]
    else:
        s += "\n## 12. Which checks catch which changes\n\n" + block + "\n"
    open(path, "w").write(s)


if __name__ == "__main__":
    main()
