#!/usr/bin/env python3
"""For every seeded change: git -C /repo apply <patch>; run the named quick check(s) against /repo itself (evidence and
replays redirected to a scratch directory); git -C /repo checkout -- . ; record the outcome in meta.json."""
import glob, json, os, shutil, subprocess, sys, tempfile
ROOT = os.path.dirname(os.path.dirname(os.path.abspath(__file__)))
only = sys.argv[1:] 
for mp in sorted(glob.glob(os.path.join(ROOT, "seeded", "*", "meta.json"))):
    m = json.load(open(mp))
    if only and m["id"] not in only:
        continue
    if m.get("obsolete"):
        print(m["id"], "obsolete (equivalent on the current tree), skipped"); continue
    d = os.path.dirname(mp)
    st = subprocess.run(["git", "-C", "/repo", "status", "--porcelain", "--untracked-files=no"], capture_output=True, text=True).stdout
    if st.strip():
        print("REFUSING: /repo has local modifications", st); sys.exit(2)
    a = subprocess.run(["git", "-C", "/repo", "apply", os.path.join(d, "patch.diff")], capture_output=True, text=True)
    if a.returncode != 0:
        print(m["id"], "patch does not apply", a.stderr[:200]); continue
    res = {}
    try:
        for prop in [m.get("property") or m["id"][:3]]:
            scratch = tempfile.mkdtemp(prefix="rtmon_onrepo_")
            env = dict(os.environ, RTMON_EVIDENCE_DIR=os.path.join(scratch, "ev"), RTMON_REPLAY_DIR=os.path.join(scratch, "rp"))
            p = subprocess.run(["./check", prop, "--tier", "quick"], cwd=ROOT, env=env, capture_output=True, text=True, timeout=7200)
            viol = [l for l in p.stdout.splitlines() if l.startswith("VIOLATION")]
            res[prop] = {"cmd": f"git -C /repo apply seeded/{m['id']}/patch.diff && ./check {prop} --tier quick && git -C /repo checkout -- .",
                         "exit": p.returncode, "violations": [v[:300] for v in viol[:3]]}
            shutil.rmtree(scratch, ignore_errors=True)
            print(m["id"], prop, "exit", p.returncode, "CAUGHT" if p.returncode == 1 and viol else "MISSED", flush=True)
    finally:
        subprocess.run(["git", "-C", "/repo", "checkout", "--", "."], check=True)
    m["applied_to_repo"] = res
    json.dump(m, open(mp, "w"), indent=1)
