#!/usr/bin/env python3
"""Runs the pinned test suite (guard off: no harness loaded) and compares the
passing set with /root/.vp/BASELINE.json."""
import json, os, subprocess, sys, tempfile, xml.etree.ElementTree as ET
base = json.load(open("/root/.vp/BASELINE.json"))
with tempfile.TemporaryDirectory() as d:
    x = os.path.join(d, "j.xml")
    env = {k: v for k, v in os.environ.items() if not k.startswith("RTMON")}
    subprocess.run(["/venv/bin/python", "-m", "pytest", "-ra", "-q", "-p", "no:cacheprovider", "--timeout=900",
                    "--continue-on-collection-errors", f"--junitxml={x}"], cwd="/repo", env=env,
                   stdout=subprocess.DEVNULL, stderr=subprocess.DEVNULL)
    passed = set()
    for tc in ET.parse(x).getroot().iter("testcase"):
        if not any(ch.tag in ("failure", "error", "skipped") for ch in tc):
            passed.add(f"{tc.get('classname')}::{tc.get('name')}")
missing = sorted(set(base["stable_pass"]) - passed)
print(f"baseline stable_pass={len(base['stable_pass'])} passed_now={len(passed)} missing={len(missing)}")
for m in missing:
    print("  MISSING", m)
sys.exit(1 if missing else 0)
