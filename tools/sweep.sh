#!/bin/sh
# tools/sweep.sh <tier> <seed> [<seed> ...] : runs every check and prints one summary line each
tier=$1; shift
for seed in "$@"; do
  for i in 01 02 03 04 05 06 07 08 09 10 11 12 13 14 15 16 17 18 19; do
    out=$(./check C$i --tier "$tier" --seed "$seed" 2>&1); rc=$?
    echo "seed=$seed rc=$rc $(echo "$out" | grep -E '^C[0-9]+ tier' | cut -c1-200)"
    echo "$out" | grep -E '^(VIOLATION|INCONCLUSIVE|KNOWN-FINDING)' | cut -c1-400
  done
done
