"""Builder: turns a Spec (plain JSON-able dict, the ground truth of what was
declared) into real ProcessScheduler objects by calling the public
constructors of the library in /repo.  Records one event per constructor call.

The Spec, not the built objects, is what the oracles read.
"""
import datetime as _dt

import z3

import processscheduler as ps


class BuildError(Exception):
    """A constructor of the library raised while building a Spec."""

    def __init__(self, stage, item, exc):
        super().__init__(f"{stage}:{item}: {type(exc).__name__}: {exc}")
        self.stage = stage
        self.item = item
        self.exc = exc


class Built:
    """Handle on the live objects of one built Spec."""

    def __init__(self, spec):
        self.spec = spec
        self.problem = None
        self.tasks = {}
        self.workers = {}
        self.cumulative = {}
        self.selections = {}      # selection id -> SelectWorkers
        self.req_sel = {}         # (task, cumulative name) -> SelectWorkers made by the library
        self.buffers = {}
        self.constraints = {}     # constraint id -> Constraint (top-level and nested)
        self.indicators = {}      # indicator id -> Indicator
        self.objectives = []      # list of Objective
        self.pins = []            # constraints added by steering
        self.events = []          # constructor events

    # ---- z3 handles (hooked state) -------------------------------------
    def busy_vars(self, worker_name, task_name):
        w = self.workers[worker_name]
        return w._busy_intervals[self.tasks[task_name]]

    def unit_workers(self, cum_name):
        return list(self.cumulative[cum_name]._cumulative_workers)

    def selection_for(self, req):
        """SelectWorkers object behind a requirement spec."""
        res = req["resource"]
        if res in self.selections:
            return self.selections[res]
        if res in self.cumulative:
            return self.req_sel[(req["task"], res)]
        return None


def _cost(c):
    if c is None:
        return None
    k = c["kind"]
    if k == "const":
        return ps.ConstantFunction(value=c["value"])
    if k == "linear":
        return ps.LinearFunction(slope=c["slope"], intercept=c["intercept"])
    if k == "poly":
        return ps.PolynomialFunction(coefficients=list(c["coefficients"]))
    raise ValueError(k)


def expr_to_z3(e, b):
    """mini-AST -> z3 term, using the live objects of Built b."""
    if isinstance(e, bool):
        return z3.BoolVal(e)
    if isinstance(e, int):
        return e
    op = e[0]
    if op == "start":
        return b.tasks[e[1]]._start
    if op == "end":
        return b.tasks[e[1]]._end
    if op == "duration":
        t = b.tasks[e[1]]
        if hasattr(t, "_duration"):
            return t._duration
        return t._end - t._start
    if op == "sched":
        s = b.tasks[e[1]]._scheduled
        return z3.BoolVal(True) if s is True else s
    if op == "horizon":
        return b.problem._horizon
    if op == "ind":
        return b.indicators[e[1]]._indicator_variable
    if op == "busy_start":
        return b.busy_vars(e[1], e[2])[0]
    if op == "busy_end":
        return b.busy_vars(e[1], e[2])[1]
    if op == "sel":
        sel = b.selections[e[1]] if e[1] in b.selections else b.req_sel[tuple(e[1])]
        for w, v in sel._selection_dict.items():
            if w.name == e[2]:
                return v
        raise KeyError(e)
    if op == "applied":
        a = b.constraints[e[1]]._applied
        return z3.BoolVal(True) if a is True else a
    if op == "level":
        return b.buffers[e[1]]._buffer_levels[e[2]]
    args = [expr_to_z3(a, b) for a in e[1:]]
    if op == "+":
        return args[0] + args[1]
    if op == "-":
        return args[0] - args[1]
    if op == "*":
        return args[0] * args[1]
    if op == "<":
        return args[0] < args[1]
    if op == "<=":
        return args[0] <= args[1]
    if op == ">":
        return args[0] > args[1]
    if op == ">=":
        return args[0] >= args[1]
    if op == "==":
        return args[0] == args[1]
    if op == "!=":
        return args[0] != args[1]
    if op == "and":
        return z3.And(*args)
    if op == "or":
        return z3.Or(*args)
    if op == "not":
        return z3.Not(args[0])
    if op == "ite":
        return z3.If(args[0], args[1], args[2])
    raise ValueError(f"unknown op {op}")


def _omit_none(**kw):
    return {k: v for k, v in kw.items() if v is not None}


def _mk_task(t):
    kind = t["type"]
    common = _omit_none(
        name=t["name"],
        optional=t.get("optional") or None,
        work_amount=t.get("work_amount"),
        release_date=t.get("release_date"),
        due_date=t.get("due_date"),
        priority=t.get("priority"),
    )
    if t.get("due_date") is not None and t.get("due_date_is_deadline") is not None:
        common["due_date_is_deadline"] = t["due_date_is_deadline"]
    if kind == "Fixed":
        return ps.FixedDurationTask(duration=t["duration"], **common)
    if kind == "Zero":
        return ps.ZeroDurationTask(**common)
    if kind == "Variable":
        extra = _omit_none(
            min_duration=t.get("min_duration"),
            max_duration=t.get("max_duration"),
            allowed_durations=t.get("allowed_durations"),
        )
        return ps.VariableDurationTask(**common, **extra)
    raise ValueError(kind)


def _resource(b, name):
    if name in b.workers:
        return b.workers[name]
    if name in b.cumulative:
        return b.cumulative[name]
    if name in b.selections:
        return b.selections[name]
    raise KeyError(name)


def _operand(b, a):
    """operand of a first-order-logic node: nested constraint spec or raw expr"""
    if isinstance(a, dict) and a.get("kind") == "expr":
        return expr_to_z3(a["expr"], b)
    if isinstance(a, dict) and a.get("kind") == "ref":
        # the SAME constraint object that an earlier node of the Spec created (operands may be shared)
        return b.constraints[a["id"]]
    return mk_constraint(b, a)


def mk_constraint(b, c):
    """Build one constraint spec (recursively for logic nodes)."""
    k = c["kind"]
    kw = {}
    if c.get("optional"):
        kw["optional"] = True
    if c.get("name") is not None:
        kw["name"] = c["name"]
    T = b.tasks
    if k in ("TaskStartAt", "TaskEndAt"):
        v = c["value"]
        v = v if isinstance(v, int) else expr_to_z3(v, b)
        obj = getattr(ps, k)(task=T[c["task"]], value=v, **kw)
    elif k in ("TaskStartAfter", "TaskEndBefore"):
        v = c["value"]
        v = v if isinstance(v, int) else expr_to_z3(v, b)
        obj = getattr(ps, k)(task=T[c["task"]], value=v, **_omit_none(kind=c.get("mode")), **kw)
    elif k == "TaskPrecedence":
        def _end(x):
            # a task name, or {"group": constraint id} for a TaskGroup declared earlier
            return b.constraints[x["group"]] if isinstance(x, dict) else T[x]
        obj = ps.TaskPrecedence(
            task_before=_end(c["before"]), task_after=_end(c["after"]),
            **_omit_none(offset=c.get("offset"), kind=c.get("mode")), **kw)
    elif k in ("TasksStartSynced", "TasksEndSynced", "TasksDontOverlap"):
        obj = getattr(ps, k)(task_1=T[c["t1"]], task_2=T[c["t2"]], **kw)
    elif k == "TasksContiguous":
        obj = ps.TasksContiguous(list_of_tasks=[T[n] for n in c["tasks"]], **kw)
    elif k in ("UnorderedTaskGroup", "OrderedTaskGroup"):
        extra = {}
        if c.get("interval") is not None:
            extra["time_interval"] = tuple(c["interval"])
        if c.get("length") is not None:
            extra["time_interval_length"] = c["length"]
        if k == "OrderedTaskGroup" and c.get("mode") is not None:
            extra["kind"] = c["mode"]
        obj = getattr(ps, k)(list_of_tasks=[T[n] for n in c["tasks"]], **extra, **kw)
    elif k == "ScheduleNTasksInTimeIntervals":
        obj = ps.ScheduleNTasksInTimeIntervals(
            list_of_tasks=[T[n] for n in c["tasks"]],
            nb_tasks_to_schedule=c["n"],
            list_of_time_intervals=[tuple(i) for i in c["intervals"]],
            **_omit_none(kind=c.get("mode")), **kw)
    elif k == "OptionalTaskForceSchedule":
        obj = ps.OptionalTaskForceSchedule(task=T[c["task"]], to_be_scheduled=c["value"], **kw)
    elif k == "OptionalTaskConditionSchedule":
        obj = ps.OptionalTaskConditionSchedule(
            task=T[c["task"]], condition=expr_to_z3(c["cond"], b), **kw)
    elif k == "OptionalTasksDependency":
        obj = ps.OptionalTasksDependency(task_1=T[c["t1"]], task_2=T[c["t2"]], **kw)
    elif k == "ForceScheduleNOptionalTasks":
        obj = ps.ForceScheduleNOptionalTasks(
            list_of_optional_tasks=[T[n] for n in c["tasks"]],
            **_omit_none(nb_tasks_to_schedule=c.get("n"), kind=c.get("mode")), **kw)
    elif k in ("TaskLoadBuffer", "TaskUnloadBuffer"):
        obj = getattr(ps, k)(task=T[c["task"]], buffer=b.buffers[c["buffer"]],
                             quantity=c["quantity"], **kw)
    elif k == "ResourceUnavailable":
        obj = ps.ResourceUnavailable(
            resource=_resource(b, c["resource"]),
            list_of_time_intervals=[tuple(i) for i in c["intervals"]], **kw)
    elif k in ("ResourcePeriodicallyUnavailable", "ResourcePeriodicallyInterrupted"):
        obj = getattr(ps, k)(
            resource=_resource(b, c["resource"]),
            list_of_time_intervals=[tuple(i) for i in c["intervals"]],
            period=c["period"],
            **_omit_none(start=c.get("start"), offset=c.get("offset"), end=c.get("end")), **kw)
    elif k == "ResourceInterrupted":
        obj = ps.ResourceInterrupted(
            resource=_resource(b, c["resource"]),
            list_of_time_intervals=[tuple(i) for i in c["intervals"]], **kw)
    elif k == "WorkLoad":
        obj = ps.WorkLoad(
            resource=_resource(b, c["resource"]),
            dict_time_intervals_and_bound={(lo, hi): bd for lo, hi, bd in c["map"]},
            **_omit_none(kind=c.get("mode")), **kw)
    elif k == "ResourceTasksDistance":
        extra = {}
        if c.get("intervals") is not None:
            extra["list_of_time_intervals"] = [tuple(i) for i in c["intervals"]]
        obj = ps.ResourceTasksDistance(
            resource=_resource(b, c["resource"]), distance=c["distance"],
            **_omit_none(mode=c.get("mode")), **extra, **kw)
    elif k == "ResourceNonDelay":
        obj = ps.ResourceNonDelay(resource=_resource(b, c["resource"]), **kw)
    elif k in ("SameWorkers", "DistinctWorkers"):
        obj = getattr(ps, k)(select_workers_1=b.selections[c["s1"]],
                             select_workers_2=b.selections[c["s2"]], **kw)
    elif k == "FromExpression":
        obj = ps.ConstraintFromExpression(expression=expr_to_z3(c["expr"], b), **kw)
    elif k == "Not":
        obj = ps.Not(constraint=_operand(b, c["arg"]), **kw)
    elif k in ("And", "Or"):
        obj = getattr(ps, k)(list_of_constraints=[_operand(b, a) for a in c["args"]], **kw)
    elif k == "Xor":
        obj = ps.Xor(constraint_1=_operand(b, c["a"]), constraint_2=_operand(b, c["b"]), **kw)
    elif k == "Implies":
        obj = ps.Implies(condition=expr_to_z3(c["cond"], b),
                         list_of_constraints=[_operand(b, a) for a in c["args"]], **kw)
    elif k == "IfThenElse":
        obj = ps.IfThenElse(
            condition=expr_to_z3(c["cond"], b),
            then_list_of_constraints=[_operand(b, a) for a in c["then"]],
            else_list_of_constraints=[_operand(b, a) for a in c["else"]], **kw)
    elif k == "ForceApplyNOptionalConstraints":
        obj = ps.ForceApplyNOptionalConstraints(
            list_of_optional_constraints=[b.constraints[i] for i in c["constraints"]],
            **_omit_none(nb_constraints_to_apply=c.get("n"), kind=c.get("mode")), **kw)
    elif k == "IndicatorTarget":
        obj = ps.IndicatorTarget(indicator=b.indicators[c["indicator"]], value=c["value"], **kw)
    elif k == "IndicatorBounds":
        obj = ps.IndicatorBounds(indicator=b.indicators[c["indicator"]],
                                 **_omit_none(lower_bound=c.get("lower"), upper_bound=c.get("upper")),
                                 **kw)
    else:
        raise ValueError(f"unknown constraint kind {k}")
    if c.get("id") is not None:
        b.constraints[c["id"]] = obj
    return obj


def mk_indicator(b, i):
    k = i["kind"]
    kw = {}
    if i.get("bounds") is not None:
        kw["bounds"] = tuple(i["bounds"])
    if k == "FromExpr":
        e = i["expr"]
        obj = ps.IndicatorFromMathExpression(
            name=i["name"], expression=e if isinstance(e, int) else expr_to_z3(e, b), **kw)
    elif k in ("Utilization", "NbTasksAssigned", "ResourceIdle"):
        cls = {"Utilization": ps.IndicatorResourceUtilization,
               "NbTasksAssigned": ps.IndicatorNumberTasksAssigned,
               "ResourceIdle": ps.IndicatorResourceIdle}[k]
        obj = cls(resource=_resource(b, i["resource"]))
    elif k in ("Tardiness", "Earliness", "NbTardy", "MaxLateness"):
        cls = {"Tardiness": ps.IndicatorTardiness, "Earliness": ps.IndicatorEarliness,
               "NbTardy": ps.IndicatorNumberOfTardyTasks,
               "MaxLateness": ps.IndicatorMaximumLateness}[k]
        if i.get("tasks") is None:
            obj = cls()
        else:
            obj = cls(list_of_tasks=[b.tasks[n] for n in i["tasks"]])
    elif k == "ResourceCost":
        obj = ps.IndicatorResourceCost(list_of_resources=[_resource(b, r) for r in i["resources"]])
    elif k == "MaxBufferLevel":
        obj = ps.IndicatorMaxBufferLevel(buffer=b.buffers[i["buffer"]])
    elif k == "MinBufferLevel":
        obj = ps.IndicatorMinBufferLevel(buffer=b.buffers[i["buffer"]])
    else:
        raise ValueError(k)
    b.indicators[i["id"]] = obj
    return obj


def mk_objective(b, o):
    k = o["kind"]
    before = set(b.problem.indicators)
    if k == "Makespan":
        obj = ps.ObjectiveMinimizeMakespan()
    elif k == "Flowtime":
        obj = (ps.ObjectiveMinimizeFlowtime() if o.get("tasks") is None else
               ps.ObjectiveMinimizeFlowtime(list_of_tasks=[b.tasks[n] for n in o["tasks"]]))
    elif k == "FlowtimeSingleResource":
        kw = {"resource": _resource(b, o["resource"])}
        if o.get("interval") is not None:
            kw["time_interval"] = tuple(o["interval"])
        obj = ps.ObjectiveMinimizeFlowtimeSingleResource(**kw)
    elif k == "Priorities":
        obj = ps.ObjectivePriorities()
    elif k == "StartLatest":
        obj = (ps.ObjectiveTasksStartLatest() if o.get("tasks") is None else
               ps.ObjectiveTasksStartLatest(list_of_tasks=[b.tasks[n] for n in o["tasks"]]))
    elif k == "StartEarliest":
        obj = ps.ObjectiveTasksStartEarliest()
    elif k == "GreatestStart":
        obj = (ps.ObjectiveMinimizeGreatestStartTime() if o.get("tasks") is None else
               ps.ObjectiveMinimizeGreatestStartTime(list_of_tasks=[b.tasks[n] for n in o["tasks"]]))
    elif k == "ResourceUtilization":
        obj = ps.ObjectiveMaximizeResourceUtilization(resource=_resource(b, o["resource"]))
    elif k == "ResourceCost":
        obj = ps.ObjectiveMinimizeResourceCost(
            list_of_resources=[_resource(b, r) for r in o["resources"]])
    elif k == "MaximizeMaxBufferLevel":
        obj = ps.ObjectiveMaximizeMaxBufferLevel(buffer=b.buffers[o["buffer"]])
    elif k == "MinimizeMaxBufferLevel":
        obj = ps.ObjectiveMinimizeMaxBufferLevel(buffer=b.buffers[o["buffer"]])
    elif k == "MaximizeIndicator":
        obj = ps.ObjectiveMaximizeIndicator(target=b.indicators[o["indicator"]],
                                            weight=o.get("weight", 1))
    elif k == "MinimizeIndicator":
        obj = ps.ObjectiveMinimizeIndicator(target=b.indicators[o["indicator"]],
                                            weight=o.get("weight", 1))
    else:
        raise ValueError(k)
    if o.get("weight") is not None and k not in ("MaximizeIndicator", "MinimizeIndicator"):
        obj.weight = o["weight"]
    # indicators created implicitly by the objective: remember under the objective id
    new = [n for n in b.problem.indicators if n not in before]
    if o.get("id") is not None:
        for n in new:
            b.indicators.setdefault(f"{o['id']}#auto", b.problem.indicators[n])
    b.objectives.append(obj)
    return obj


def build(spec, stop_on_error=True):
    """Build a Spec with the real constructors.  Returns Built.

    Raises BuildError when a constructor raises (the C18 monitor catches it
    at the boundary instead and passes stop_on_error=False).
    """
    b = Built(spec)

    def call(stage, item, fn):
        try:
            obj = fn()
            b.events.append({"stage": stage, "item": item, "ok": True})
            return obj
        except Exception as exc:  # pylint: disable=broad-except
            b.events.append({"stage": stage, "item": item, "ok": False,
                             "exc": type(exc).__name__, "msg": str(exc)[:200]})
            if stop_on_error:
                raise BuildError(stage, item, exc) from exc
            return None

    p = spec["problem"]
    kw = _omit_none(name=p.get("name", "P"), horizon=p.get("horizon"))
    if p.get("delta_minutes") is not None:
        kw["delta_time"] = _dt.timedelta(minutes=p["delta_minutes"])
    if p.get("start_time") is not None:
        kw["start_time"] = _dt.datetime.fromisoformat(p["start_time"])
    b.problem = call("problem", kw.get("name"), lambda: ps.SchedulingProblem(**kw))

    for t in spec.get("tasks", []):
        obj = call("task", t["name"], lambda t=t: _mk_task(t))
        if obj is not None:
            b.tasks[t["name"]] = obj
    for w in spec.get("workers", []):
        wk = _omit_none(name=w["name"], productivity=w.get("productivity"))
        if w.get("cost") is not None:
            wk["cost"] = _cost(w["cost"])
        obj = call("worker", w["name"], lambda wk=wk: ps.Worker(**wk))
        if obj is not None:
            b.workers[w["name"]] = obj
    for c in spec.get("cumulative", []):
        ck = _omit_none(name=c["name"], size=c["size"], productivity=c.get("productivity"))
        if c.get("cost") is not None:
            ck["cost"] = _cost(c["cost"])
        obj = call("cumulative", c["name"], lambda ck=ck: ps.CumulativeWorker(**ck))
        if obj is not None:
            b.cumulative[c["name"]] = obj
            for u in obj._cumulative_workers:
                b.workers[u.name] = u
    for s in spec.get("selections", []):
        def mk(s=s):
            return ps.SelectWorkers(
                list_of_workers=[_resource(b, n) for n in s["workers"]],
                **_omit_none(nb_workers_to_select=s.get("n"), kind=s.get("kind")))
        obj = call("selection", s["id"], mk)
        if obj is not None:
            b.selections[s["id"]] = obj
    for r in spec.get("requirements", []):
        def mk(r=r):
            before = set(b.problem.select_workers)
            kw2 = {}
            if r.get("dynamic"):
                kw2["dynamic"] = True
            if r.get("delay_in"):
                kw2["delay_in"] = r["delay_in"]
            if r.get("early_out"):
                kw2["early_out"] = r["early_out"]
            b.tasks[r["task"]].add_required_resource(_resource(b, r["resource"]), **kw2)
            if r["resource"] in b.cumulative:
                new = [n for n in b.problem.select_workers if n not in before]
                b.req_sel[(r["task"], r["resource"])] = b.problem.select_workers[new[0]]
            return True
        call("requirement", f"{r['task']}<-{r['resource']}", mk)
    for bf in spec.get("buffers", []):
        def mk(bf=bf):
            cls = ps.ConcurrentBuffer if bf.get("concurrent") else ps.NonConcurrentBuffer
            return cls(**_omit_none(name=bf["name"], initial_level=bf.get("initial"),
                                    final_level=bf.get("final"), lower_bound=bf.get("lower"),
                                    upper_bound=bf.get("upper")))
        obj = call("buffer", bf["name"], mk)
        if obj is not None:
            b.buffers[bf["name"]] = obj
    # indicators may be referenced by constraints (IndicatorTarget) and
    # constraints by nothing earlier; buffer operations must precede buffer
    # indicators, so constraints with stage 'early' go first.
    cons = spec.get("constraints", [])
    early = [c for c in cons if c["kind"] in ("TaskLoadBuffer", "TaskUnloadBuffer")]
    late = [c for c in cons if c["kind"] in ("IndicatorTarget", "IndicatorBounds")]
    mid = [c for c in cons if c not in early and c not in late]
    # buffer operations and the other constraints are declared in the order of the Spec (C14 permutes it); only the
    # constraints that need an indicator object wait for the indicators
    for c in cons:
        if c in early or c in mid:
            call("constraint", c.get("id") or c["kind"], lambda c=c: mk_constraint(b, c))
    for i in spec.get("indicators", []):
        call("indicator", i["id"], lambda i=i: mk_indicator(b, i))
    for c in late:
        call("constraint", c.get("id") or c["kind"], lambda c=c: mk_constraint(b, c))
    for o in spec.get("objectives", []):
        call("objective", o["kind"], lambda o=o: mk_objective(b, o))
    return b


# ---------------------------------------------------------------------------
# steering: pins through the public API
# ---------------------------------------------------------------------------
def apply_pins(b, pins):
    """pins: list of pin dicts.

    {"pin":"start","task":t,"value":v}      TaskStartAt
    {"pin":"end","task":t,"value":v}        TaskEndAt
    {"pin":"sched","task":t,"value":bool}   OptionalTaskForceSchedule
    {"pin":"expr","expr":[...]}             ConstraintFromExpression
    """
    for p in pins:
        k = p["pin"]
        if k == "start":
            c = ps.TaskStartAt(task=b.tasks[p["task"]], value=p["value"])
        elif k == "end":
            c = ps.TaskEndAt(task=b.tasks[p["task"]], value=p["value"])
        elif k == "sched":
            c = ps.OptionalTaskForceSchedule(task=b.tasks[p["task"]], to_be_scheduled=p["value"])
        elif k == "expr":
            c = ps.ConstraintFromExpression(expression=expr_to_z3(p["expr"], b))
        else:
            raise ValueError(k)
        b.pins.append(c)
