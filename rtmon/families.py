"""Catalogues of micro-Specs: element kind x kind/mode parameter x boundary
values.  Each entry is (cell name, spec).  The soundness monitors (C02-C04,
C09) and the completeness monitor (C05) walk the same catalogue."""
import copy
import itertools


def base(H, tasks, **kw):
    spec = {"problem": {"name": "P", "horizon": H}, "tasks": tasks, "workers": [], "cumulative": [],
            "selections": [], "requirements": [], "buffers": [], "constraints": [], "indicators": [],
            "objectives": []}
    spec.update(kw)
    return spec


def fx(name, d, **kw):
    return dict({"name": name, "type": "Fixed", "duration": d}, **kw)


def zr(name, **kw):
    return dict({"name": name, "type": "Zero"}, **kw)


def vr(name, mn=1, mx=3, **kw):
    t = {"name": name, "type": "Variable"}
    if mn is not None:
        t["min_duration"] = mn
    if mx is not None:
        t["max_duration"] = mx
    t.update(kw)
    return t


# task-type mixes used to instantiate a constraint cell
PAIRS = [
    ("ff", lambda: [fx("t0", 2), fx("t1", 1)]),
    ("fv", lambda: [fx("t0", 2), vr("t1", 1, 2)]),
    ("fz", lambda: [fx("t0", 2), zr("t1")]),
    ("fo", lambda: [fx("t0", 2), fx("t1", 1, optional=True)]),
    ("oo", lambda: [fx("t0", 1, optional=True), vr("t1", 1, 2, optional=True)]),
    ("zz", lambda: [zr("t0"), zr("t1")]),
]
TRIPLES = [
    ("fff", lambda: [fx("t0", 1), fx("t1", 2), fx("t2", 1)]),
    ("fvo", lambda: [fx("t0", 1), vr("t1", 1, 2), fx("t2", 1, optional=True)]),
    ("fzf", lambda: [fx("t0", 1), zr("t1"), fx("t2", 2)]),
]


# ---------------------------------------------------------------------------
# C03 task constraints
# ---------------------------------------------------------------------------
def c03_cells(tier="quick"):
    cells = []
    H = 5
    pairs = PAIRS if tier != "quick" else PAIRS
    for tag, mk in pairs:
        for kind in ("TaskStartAt", "TaskEndAt"):
            for v in (0, 2, H):
                cells.append((f"{kind}.{tag}.v{v}", base(H, mk(), constraints=[
                    {"id": "c", "kind": kind, "task": "t1", "value": v}])))
        for kind in ("TaskStartAfter", "TaskEndBefore"):
            for mode in ("lax", "strict"):
                for v in (0, 2, H):
                    cells.append((f"{kind}.{mode}.{tag}.v{v}", base(H, mk(), constraints=[
                        {"id": "c", "kind": kind, "task": "t1", "value": v, "mode": mode}])))
        for mode in ("lax", "strict", "tight"):
            for off in (0, 1, 3):
                cells.append((f"TaskPrecedence.{mode}.{tag}.o{off}", base(H, mk(), constraints=[
                    {"id": "c", "kind": "TaskPrecedence", "before": "t0", "after": "t1", "offset": off,
                     "mode": mode}])))
                if off == 1:
                    cells.append((f"TaskPrecedence.{mode}.{tag}.rev", base(H, mk(), constraints=[
                        {"id": "c", "kind": "TaskPrecedence", "before": "t1", "after": "t0", "offset": off,
                         "mode": mode}])))
        for kind in ("TasksStartSynced", "TasksEndSynced", "TasksDontOverlap"):
            cells.append((f"{kind}.{tag}", base(H, mk(), constraints=[{"id": "c", "kind": kind, "t1": "t0",
                                                                       "t2": "t1"}])))
        cells.append((f"TasksContiguous.{tag}", base(H, mk(), constraints=[
            {"id": "c", "kind": "TasksContiguous", "tasks": ["t0", "t1"]}])))
        for iv in ([1, 4], [0, H], [2, 3]):
            cells.append((f"UnorderedTaskGroup.interval.{tag}.{iv[0]}-{iv[1]}", base(H, mk(), constraints=[
                {"id": "c", "kind": "UnorderedTaskGroup", "tasks": ["t0", "t1"], "interval": iv}])))
        for ln in (0, 2, 3):
            cells.append((f"UnorderedTaskGroup.length.{tag}.{ln}", base(H, mk(), constraints=[
                {"id": "c", "kind": "UnorderedTaskGroup", "tasks": ["t0", "t1"], "length": ln}])))
        cells.append((f"UnorderedTaskGroup.nowindow.{tag}", base(H, mk(), constraints=[
            {"id": "c", "kind": "UnorderedTaskGroup", "tasks": ["t0", "t1"]}])))
        for mode in ("lax", "strict", "tight"):
            cells.append((f"OrderedTaskGroup.{mode}.interval.{tag}", base(H, mk(), constraints=[
                {"id": "c", "kind": "OrderedTaskGroup", "tasks": ["t0", "t1"], "interval": [0, 4], "mode": mode}])))
            cells.append((f"OrderedTaskGroup.{mode}.length.{tag}", base(H, mk(), constraints=[
                {"id": "c", "kind": "OrderedTaskGroup", "tasks": ["t1", "t0"], "length": 4, "mode": mode}])))
        cells.append((f"OrderedTaskGroup.nowindow.{tag}", base(H, mk(), constraints=[
            {"id": "c", "kind": "OrderedTaskGroup", "tasks": ["t0", "t1"], "mode": "lax"}])))
        for mode in ("exact", "min", "max"):
            for n in (0, 1, 2):
                for ivs in ([[0, 2]], [[0, 2], [3, 5]], [[0, 2], [2, 4]], [[0, 3], [1, 4]]):
                    if tier == "quick" and (n == 0 and mode == "min"):
                        continue
                    nm = "_".join(f"{a}-{b}" for a, b in ivs)
                    cells.append((f"ScheduleN.{mode}.{tag}.n{n}.{nm}", base(H, mk(), constraints=[
                        {"id": "c", "kind": "ScheduleNTasksInTimeIntervals", "tasks": ["t0", "t1"], "n": n,
                         "intervals": ivs, "mode": mode}])))
    # values given as expressions over other tasks' unknowns (the library accepts z3 terms for `value`)
    for tag, mk in pairs[:3]:
        cells.append((f"TaskStartAt.expr.{tag}", base(H, mk(), constraints=[
            {"id": "c", "kind": "TaskStartAt", "task": "t1", "value": ["+", ["end", "t0"], 1]}])))
        cells.append((f"TaskEndBefore.expr.{tag}", base(H, mk(), constraints=[
            {"id": "c", "kind": "TaskEndBefore", "task": "t0", "value": ["-", ["start", "t1"], 1], "mode": "strict"}])))
        cells.append((f"TaskStartAfter.expr.{tag}", base(H, mk(), constraints=[
            {"id": "c", "kind": "TaskStartAfter", "task": "t1", "value": ["*", ["start", "t0"], 2], "mode": "lax"}])))
    # a single listed task
    for mode in ("exact", "min", "max"):
        for n in (0, 1):
            cells.append((f"ScheduleN1.{mode}.n{n}", base(H, [fx("t0", 2), fx("t1", 1)], constraints=[
                {"id": "c", "kind": "ScheduleNTasksInTimeIntervals", "tasks": ["t0"], "n": n,
                 "intervals": [[0, 3]], "mode": mode}])))
    # precedence between task groups
    for mode in ("lax", "strict"):
        for off in (0, 1):
            cells.append((f"GroupPrecedence.{mode}.o{off}", base(5, [fx("t0", 1), fx("t1", 1), fx("t2", 1, optional=True)],
                                                                 constraints=[
                {"id": "g1", "kind": "UnorderedTaskGroup", "tasks": ["t0", "t2"]},
                {"id": "g2", "kind": "UnorderedTaskGroup", "tasks": ["t1"], "interval": [1, 5]},
                {"id": "c", "kind": "TaskPrecedence", "before": {"group": "g1"}, "after": {"group": "g2"}, "offset": off,
                 "mode": mode}])))
    cells.append(("GroupPrecedence.task_then_group", base(5, [fx("t0", 2), fx("t1", 1), vr("t2", 1, 2)], constraints=[
        {"id": "g2", "kind": "OrderedTaskGroup", "tasks": ["t1", "t2"], "length": 4, "mode": "lax"},
        {"id": "c", "kind": "TaskPrecedence", "before": "t0", "after": {"group": "g2"}, "offset": 0, "mode": "strict"}])))
    H3 = 4
    for tag, mk in TRIPLES:
        cells.append((f"TasksContiguous3.{tag}", base(H3, mk(), constraints=[
            {"id": "c", "kind": "TasksContiguous", "tasks": ["t0", "t1", "t2"]}])))
        for mode in ("lax", "tight"):
            cells.append((f"OrderedTaskGroup3.{mode}.{tag}", base(H3, mk(), constraints=[
                {"id": "c", "kind": "OrderedTaskGroup", "tasks": ["t2", "t0", "t1"], "interval": [0, 4],
                 "mode": mode}])))
        # a window strictly inside the horizon, every rotation of the member list (the optional / zero-duration
        # member first, in the middle, last)
        for rot, order in enumerate((["t2", "t0", "t1"], ["t0", "t2", "t1"], ["t0", "t1", "t2"])):
            for mode in ("lax", "strict", "tight"):
                cells.append((f"OrderedTaskGroup3.window.{mode}.r{rot}.{tag}", base(7, mk(), constraints=[
                    {"id": "c", "kind": "OrderedTaskGroup", "tasks": order, "interval": [1, 6], "mode": mode}])))
            cells.append((f"OrderedTaskGroup3.length.r{rot}.{tag}", base(7, mk(), constraints=[
                {"id": "c", "kind": "OrderedTaskGroup", "tasks": order, "length": 5, "mode": "lax"}])))
            cells.append((f"UnorderedTaskGroup3.window.r{rot}.{tag}", base(7, mk(), constraints=[
                {"id": "c", "kind": "UnorderedTaskGroup", "tasks": order, "interval": [1, 6]}])))
        cells.append((f"UnorderedTaskGroup3.{tag}", base(H3, mk(), constraints=[
            {"id": "c", "kind": "UnorderedTaskGroup", "tasks": ["t0", "t1", "t2"], "length": 3}])))
        for mode in ("exact", "max"):
            cells.append((f"ScheduleN3.{mode}.{tag}", base(H3, mk(), constraints=[
                {"id": "c", "kind": "ScheduleNTasksInTimeIntervals", "tasks": ["t0", "t1", "t2"], "n": 2,
                 "intervals": [[0, 2], [2, 4]], "mode": mode}])))
    return cells


# ---------------------------------------------------------------------------
# C02 resources
# ---------------------------------------------------------------------------
def c02_cells(tier="quick"):
    cells = []
    H = 5
    W = [{"name": "w0"}, {"name": "w1"}, {"name": "w2"}]
    for tag, mk in PAIRS:
        cells.append((f"one_worker.{tag}", base(H, mk(), workers=W[:1], requirements=[
            {"task": "t0", "resource": "w0"}, {"task": "t1", "resource": "w0"}])))
        cells.append((f"two_workers.{tag}", base(H, mk(), workers=W[:2], requirements=[
            {"task": "t0", "resource": "w0"}, {"task": "t0", "resource": "w1"}, {"task": "t1", "resource": "w1"}])))
        for kind, n, k in (("exact", 1, 2), ("exact", 2, 2), ("min", 1, 2), ("max", 1, 2), ("exact", 1, 3),
                           ("exact", 2, 3), ("min", 2, 3), ("max", 2, 3), ("exact", 3, 3)):
            if tier == "quick" and tag in ("zz", "fz") and k == 3:
                continue
            ws = [w["name"] for w in W[:k]]
            cells.append((f"selection.{kind}{n}of{k}.{tag}", base(H - 1, mk(), workers=W[:k], selections=[
                {"id": "s0", "workers": ws, "n": n, "kind": kind}], requirements=[
                {"task": "t0", "resource": "s0"}, {"task": "t1", "resource": "w0"}])))
        # a worker listed twice (two teams sharing a member): it is one candidate and counts once
        for kind, n in (("exact", 2), ("min", 2), ("max", 1), ("exact", 1)):
            cells.append((f"selection_dup.{kind}{n}.{tag}", base(H - 1, mk(), workers=W[:3], selections=[
                {"id": "s0", "workers": ["w0", "w1", "w1", "w2"], "n": n, "kind": kind}], requirements=[
                {"task": "t0", "resource": "s0"}, {"task": "t1", "resource": "w0"}])))
        cells.append((f"two_selections.{tag}", base(H - 1, mk(), workers=W[:2], selections=[
            {"id": "s0", "workers": ["w0", "w1"], "n": 1, "kind": "exact"},
            {"id": "s1", "workers": ["w0", "w1"], "n": 1, "kind": "exact"}], requirements=[
            {"task": "t0", "resource": "s0"}, {"task": "t1", "resource": "s1"}])))
    for tag, mk in TRIPLES:
        for size in (2, 3):
            cells.append((f"cumulative{size}.{tag}", base(4, mk(), cumulative=[{"name": "cu", "size": size}],
                                                          requirements=[{"task": t, "resource": "cu"}
                                                                        for t in ("t0", "t1", "t2")])))
        cells.append((f"one_worker3.{tag}", base(4, mk(), workers=W[:1], requirements=[
            {"task": t, "resource": "w0"} for t in ("t0", "t1", "t2")])))
    # one task on two different cumulative workers (a pool of machines and a pool of operators), alone and with a plain worker
    for tag, mk in PAIRS[:4]:
        cells.append((f"two_cumulative.{tag}", base(3, mk(), workers=W[:1], cumulative=[
            {"name": "cuA", "size": 2}, {"name": "cuB", "size": 3}], requirements=[
            {"task": "t0", "resource": "cuA"}, {"task": "t0", "resource": "cuB"}, {"task": "t1", "resource": "cuB"},
            {"task": "t1", "resource": "w0"}])))
    # a selection that lists a cumulative worker next to a plain one
    cells.append(("selection_over_cumulative", base(3, [fx("t0", 2), fx("t1", 2), fx("t2", 2)], workers=W[:1],
                                                    cumulative=[{"name": "cu", "size": 2}],
                                                    selections=[{"id": "s0", "workers": ["cu", "w0"], "n": 1, "kind": "exact"},
                                                                {"id": "s1", "workers": ["cu", "w0"], "n": 1, "kind": "exact"},
                                                                {"id": "s2", "workers": ["cu", "w0"], "n": 1, "kind": "exact"}],
                                                    requirements=[{"task": "t0", "resource": "s0"},
                                                                  {"task": "t1", "resource": "s1"},
                                                                  {"task": "t2", "resource": "s2"}])))
    # delayed / early-out / dynamic assignments
    for di, eo in ((1, 0), (0, 1), (1, 1), (2, 0)):
        cells.append((f"delayed.di{di}.eo{eo}", base(6, [fx("t0", 3), fx("t1", 2)], workers=W[:1], requirements=[
            {"task": "t0", "resource": "w0", "delay_in": di, "early_out": eo}, {"task": "t1", "resource": "w0"}])))
        cells.append((f"delayed_var.di{di}.eo{eo}", base(6, [vr("t0", 2, 4), fx("t1", 2)], workers=W[:1],
                                                         requirements=[
            {"task": "t0", "resource": "w0", "delay_in": di, "early_out": eo}, {"task": "t1", "resource": "w0"}])))
    for di, eo in ((2, 0), (1, 1)):
        cells.append((f"delayed_opt.di{di}.eo{eo}.fo", base(5, [fx("t0", 3, optional=True), fx("t1", 1)], workers=W[:1],
                                                            requirements=[
            {"task": "t0", "resource": "w0", "delay_in": di, "early_out": eo}, {"task": "t1", "resource": "w0"}])))
    for t0 in (fx("t0", 3), vr("t0", 1, 3), fx("t0", 2, optional=True)):
        cells.append((f"dynamic.{t0['type']}{'o' if t0.get('optional') else ''}", base(
            4, [t0, fx("t1", 1)], workers=W[:1], requirements=[
                {"task": "t0", "resource": "w0", "dynamic": True}, {"task": "t1", "resource": "w0"}])))
    # work amount
    for wa in (1, 3, 4, 7):
        for p0, p1 in ((1, None), (2, None), (0, None), (1, 2), (0, 3), (3, 1), (2, 2), (3, 3)):
            ws = [{"name": "w0", "productivity": p0}] + ([{"name": "w1", "productivity": p1}] if p1 is not None else [])
            reqs = [{"task": "t0", "resource": w["name"]} for w in ws]
            cells.append((f"work.{wa}.p{p0}_{p1}", base(5, [vr("t0", 0, None, work_amount=wa)], workers=ws,
                                                        requirements=reqs)))
        cells.append((f"work_dyn.{wa}", base(5, [vr("t0", 1, 4, work_amount=wa)], workers=[
            {"name": "w0", "productivity": 1}, {"name": "w1", "productivity": 2}], requirements=[
            {"task": "t0", "resource": "w0"}, {"task": "t0", "resource": "w1", "dynamic": True}])))
        cells.append((f"work_sel.{wa}", base(4, [vr("t0", 1, 4, work_amount=wa)], workers=[
            {"name": "w0", "productivity": 1}, {"name": "w1", "productivity": 3}], selections=[
            {"id": "s0", "workers": ["w0", "w1"], "n": 1, "kind": "min"}], requirements=[
            {"task": "t0", "resource": "s0"}])))
        # workers of EQUAL productivity >= 2 reached through a selection / a dynamic requirement / a cumulative worker
        cells.append((f"work_sel_eq.{wa}", base(4, [vr("t0", 1, 4, work_amount=wa), fx("t1", 1)], workers=[
            {"name": "w0", "productivity": 3}, {"name": "w1", "productivity": 3}], selections=[
            {"id": "s0", "workers": ["w0", "w1"], "n": 1, "kind": "min"}], requirements=[
            {"task": "t0", "resource": "s0"}, {"task": "t1", "resource": "w1"}])))
        cells.append((f"work_dyn_eq.{wa}", base(4, [vr("t0", 1, 4, work_amount=wa), fx("t1", 1)], workers=[
            {"name": "w0", "productivity": 2}, {"name": "w1", "productivity": 2}], requirements=[
            {"task": "t0", "resource": "w0"}, {"task": "t0", "resource": "w1", "dynamic": True},
            {"task": "t1", "resource": "w1"}])))
        cells.append((f"work_opt.{wa}", base(4, [vr("t0", 1, 4, work_amount=wa, optional=True)], workers=[
            {"name": "w0", "productivity": 1}], requirements=[{"task": "t0", "resource": "w0"}])))
    return cells


# ---------------------------------------------------------------------------
# C04 resource constraints
# ---------------------------------------------------------------------------
def c04_cells(tier="quick"):
    cells = []
    W = [{"name": "w0"}, {"name": "w1"}]
    mixes = [
        ("f", lambda: [fx("t0", 2)]),
        ("v", lambda: [vr("t0", 1, 3)]),
        # a variable task whose minimum is close to the period: lengthening decides validity
        ("V", lambda: [vr("t0", 3, 6)]),
        ("z", lambda: [zr("t0")]),
        ("ff", lambda: [fx("t0", 2), fx("t1", 1)]),
        ("fv", lambda: [fx("t0", 1), vr("t1", 1, 2)]),
        ("fo", lambda: [fx("t0", 2), fx("t1", 1, optional=True)]),
    ]

    def on_w0(tasks):
        return [{"task": t["name"], "resource": "w0"} for t in tasks]

    for tag, mk in mixes:
        two = len(mk()) == 2
        H = 6 if two else 8
        # (the last list: a long interruption BEFORE a short one - lengths must not be mixed up)
        for ivs in ([[2, 4]], [[0, 1], [3, 5]], [[1, 2], [2, 4]], [[1, 3], [5, 6]]):
            nm = "_".join(f"{a}-{b}" for a, b in ivs)
            cells.append((f"ResourceUnavailable.{tag}.{nm}", base(H, mk(), workers=W[:1], requirements=on_w0(mk()),
                                                                 constraints=[
                {"id": "c", "kind": "ResourceUnavailable", "resource": "w0", "intervals": ivs}])))
            cells.append((f"ResourceInterrupted.{tag}.{nm}", base(H, mk(), workers=W[:1], requirements=on_w0(mk()),
                                                                 constraints=[
                {"id": "c", "kind": "ResourceInterrupted", "resource": "w0", "intervals": ivs}])))
        Hp = 8 if two else 11
        for per, iv, off, st, en in ((5, [1, 3], None, None, None), (3, [0, 1], None, None, None),
                                     (5, [1, 3], 1, None, None), (4, [2, 3], None, 3, None),
                                     (4, [2, 3], None, None, 6), (5, [3, 5], 2, 2, 9)):
            if two and per == 3:
                continue
            c = {"id": "c", "resource": "w0", "intervals": [iv], "period": per}
            if off is not None:
                c["offset"] = off
            if st is not None:
                c["start"] = st
            if en is not None:
                c["end"] = en
            nm = f"p{per}.{iv[0]}-{iv[1]}.o{off}.s{st}.e{en}"
            cells.append((f"ResourcePeriodicallyUnavailable.{tag}.{nm}", base(
                Hp, mk(), workers=W[:1], requirements=on_w0(mk()),
                constraints=[dict(c, kind="ResourcePeriodicallyUnavailable")])))
            cells.append((f"ResourcePeriodicallyInterrupted.{tag}.{nm}", base(
                Hp, mk(), workers=W[:1], requirements=on_w0(mk()),
                constraints=[dict(c, kind="ResourcePeriodicallyInterrupted")])))
        for mode in ("exact", "max", "min"):
            for mp in ([[1, 3, 1]], [[1, 3, 2]], [[1, 3, 0]], [[0, 2, 1], [3, 5, 1]], [[2, 3, 1]]):
                nm = "_".join(f"{a}-{b}:{c}" for a, b, c in mp)
                cells.append((f"WorkLoad.{mode}.{tag}.{nm}", base(H, mk(), workers=W[:1], requirements=on_w0(mk()),
                                                                   constraints=[
                    {"id": "c", "kind": "WorkLoad", "resource": "w0", "map": mp, "mode": mode}])))
        if two:
            for mode in ("exact", "min", "max"):
                for dist in (0, 1, 3):
                    cells.append((f"ResourceTasksDistance.{mode}.{tag}.d{dist}", base(
                        H, mk(), workers=W[:1], requirements=on_w0(mk()), constraints=[
                            {"id": "c", "kind": "ResourceTasksDistance", "resource": "w0", "distance": dist,
                             "mode": mode}])))
                cells.append((f"ResourceTasksDistance.{mode}.{tag}.iv", base(
                    H, mk(), workers=W[:1], requirements=on_w0(mk()), constraints=[
                        {"id": "c", "kind": "ResourceTasksDistance", "resource": "w0", "distance": 1,
                         "mode": mode, "intervals": [[0, 3]]}])))
                # intervals whose lower bound is positive: a task may straddle it (start before, end inside)
                for nm, ivs in (("lb2", [[2, H]]), ("two", [[1, 2], [3, H]])):
                    cells.append((f"ResourceTasksDistance.{mode}.{tag}.iv_{nm}", base(
                        H, mk(), workers=W[:1], requirements=on_w0(mk()), constraints=[
                            {"id": "c", "kind": "ResourceTasksDistance", "resource": "w0", "distance": 1,
                             "mode": mode, "intervals": ivs}])))
            cells.append((f"ResourceNonDelay.{tag}", base(H, mk(), workers=W[:1], requirements=on_w0(mk()),
                                                          constraints=[
                {"id": "c", "kind": "ResourceNonDelay", "resource": "w0"}])))
    # three tasks on one worker: distance / non-delay between consecutive tasks
    for tag, mk in TRIPLES[:2]:
        cells.append((f"ResourceNonDelay3.{tag}", base(5, mk(), workers=W[:1], requirements=[
            {"task": t, "resource": "w0"} for t in ("t0", "t1", "t2")], constraints=[
            {"id": "c", "kind": "ResourceNonDelay", "resource": "w0"}])))
        cells.append((f"ResourceTasksDistance3.{tag}", base(6, mk(), workers=W[:1], requirements=[
            {"task": t, "resource": "w0"} for t in ("t0", "t1", "t2")], constraints=[
            {"id": "c", "kind": "ResourceTasksDistance", "resource": "w0", "distance": 1, "mode": "min"}])))
    # cumulative worker
    for kind, extra in (("ResourceUnavailable", {"intervals": [[1, 3]]}),
                        ("WorkLoad", {"map": [[0, 3, 2]], "mode": "max"}),
                        ("WorkLoad", {"map": [[0, 3, 3]], "mode": "min"}),
                        ("ResourceInterrupted", {"intervals": [[1, 2]]}),
                        ("ResourcePeriodicallyUnavailable", {"intervals": [[1, 2]], "period": 3}),
                        ("ResourcePeriodicallyInterrupted", {"intervals": [[1, 2]], "period": 3})):
        cells.append((f"{kind}.cumulative.{extra.get('mode', '')}", base(
            5, [fx("t0", 2), fx("t1", 2)], cumulative=[{"name": "cu", "size": 2}], requirements=[
                {"task": "t0", "resource": "cu"}, {"task": "t1", "resource": "cu"}],
            constraints=[dict({"id": "c", "kind": kind, "resource": "cu"}, **extra)])))
    # through a selection
    for kind, extra in (("ResourceUnavailable", {"intervals": [[0, 2]]}),
                        ("WorkLoad", {"map": [[0, 4, 1]], "mode": "max"}),
                        ("ResourcePeriodicallyUnavailable", {"intervals": [[0, 1]], "period": 3})):
        cells.append((f"{kind}.via_selection", base(
            5, [fx("t0", 2), fx("t1", 1)], workers=W, selections=[
                {"id": "s0", "workers": ["w0", "w1"], "n": 1, "kind": "exact"}], requirements=[
                {"task": "t0", "resource": "s0"}, {"task": "t1", "resource": "w0"}],
            constraints=[dict({"id": "c", "kind": kind, "resource": "w0"}, **extra)])))
    # sorting-based constraints on a worker that several selections may leave unselected
    for kind, extra in (("ResourceNonDelay", {}), ("ResourceTasksDistance", {"distance": 1, "mode": "min"})):
        cells.append((f"{kind}.via_two_selections", base(
            5, [fx("t0", 1), fx("t1", 1), fx("t2", 2)], workers=W, selections=[
                {"id": "s0", "workers": ["w0", "w1"], "n": 1, "kind": "exact"},
                {"id": "s1", "workers": ["w0", "w1"], "n": 1, "kind": "exact"}], requirements=[
                {"task": "t0", "resource": "s0"}, {"task": "t1", "resource": "s1"}, {"task": "t2", "resource": "w0"}],
            constraints=[dict({"id": "c", "kind": kind, "resource": "w0"}, **extra)])))
    # an unscheduled optional task and a worker left unselected both park a busy interval in the past on w0
    for kind, extra in (("ResourceNonDelay", {}), ("ResourceTasksDistance", {"distance": 1, "mode": "min"})):
        cells.append((f"{kind}.unscheduled_and_unselected", base(
            5, [fx("t0", 1), fx("t1", 1, optional=True), fx("t2", 2)], workers=W, selections=[
                {"id": "s0", "workers": ["w0", "w1"], "n": 1, "kind": "exact"}], requirements=[
                {"task": "t0", "resource": "w0"}, {"task": "t1", "resource": "w0"}, {"task": "t2", "resource": "s0"}],
            constraints=[dict({"id": "c", "kind": kind, "resource": "w0"}, **extra)])))
    # SameWorkers / DistinctWorkers
    W3 = [{"name": "w0"}, {"name": "w1"}, {"name": "w2"}]
    for kind in ("SameWorkers", "DistinctWorkers"):
        for k, n1, n2, k1, k2 in ((2, 1, 1, "exact", "exact"), (3, 1, 1, "exact", "exact"),
                                  (3, 2, 1, "exact", "exact"), (3, 1, 1, "min", "max"),
                                  (3, 2, 2, "exact", "exact")):
            ws = [w["name"] for w in W3[:k]]
            cells.append((f"{kind}.{k}.{k1}{n1}.{k2}{n2}", base(
                3, [fx("t0", 1), fx("t1", 1)], workers=W3[:k], selections=[
                    {"id": "s0", "workers": ws, "n": n1, "kind": k1},
                    {"id": "s1", "workers": ws, "n": n2, "kind": k2}], requirements=[
                    {"task": "t0", "resource": "s0"}, {"task": "t1", "resource": "s1"}],
                constraints=[{"id": "c", "kind": kind, "s1": "s0", "s2": "s1"}])))
        cells.append((f"{kind}.partial_lists", base(
            3, [fx("t0", 1), fx("t1", 1)], workers=W3, selections=[
                {"id": "s0", "workers": ["w0", "w1"], "n": 1, "kind": "exact"},
                {"id": "s1", "workers": ["w1", "w2"], "n": 1, "kind": "exact"}], requirements=[
                {"task": "t0", "resource": "s0"}, {"task": "t1", "resource": "s1"}],
            constraints=[{"id": "c", "kind": kind, "s1": "s0", "s2": "s1"}])))
    return cells


# ---------------------------------------------------------------------------
# C09 buffers
# ---------------------------------------------------------------------------
def c09_cells(tier="quick"):
    cells = []
    H = 5
    for conc in (False, True):
        ctag = "conc" if conc else "nonconc"
        for bnd in ({"initial": 2}, {"initial": 2, "lower": 0}, {"initial": 0, "lower": 0, "upper": 3},
                    {"initial": 3, "final": 2}, {"final": 4}, {"initial": 1, "upper": 2, "lower": 0},
                    {"initial": 1, "final": 0}, {"final": 0}, {"initial": 0, "final": 0, "lower": -3},
                    # no initial level: the first level is an unknown that the bounds must hold too
                    {"final": 2, "lower": 0}, {"final": 3, "lower": 0, "upper": 3}, {"final": 0, "lower": 0}):
            btag = ",".join(f"{k}{v}" for k, v in bnd.items())
            b = dict({"name": "bf", "concurrent": conc}, **bnd)
            # one unloader + one loader
            cells.append((f"{ctag}.UL.{btag}", base(H, [fx("t0", 2), fx("t1", 1)], buffers=[b], constraints=[
                {"id": "u0", "kind": "TaskUnloadBuffer", "task": "t0", "buffer": "bf", "quantity": 2},
                {"id": "l1", "kind": "TaskLoadBuffer", "task": "t1", "buffer": "bf", "quantity": 1}])))
            # two unloaders
            cells.append((f"{ctag}.UU.{btag}", base(H, [fx("t0", 2), vr("t1", 1, 2)], buffers=[b], constraints=[
                {"id": "u0", "kind": "TaskUnloadBuffer", "task": "t0", "buffer": "bf", "quantity": 1},
                {"id": "u1", "kind": "TaskUnloadBuffer", "task": "t1", "buffer": "bf", "quantity": 2}])))
            # two loaders with a zero-duration task
            cells.append((f"{ctag}.LL.{btag}", base(H, [fx("t0", 1), zr("t1")], buffers=[b], constraints=[
                {"id": "l0", "kind": "TaskLoadBuffer", "task": "t0", "buffer": "bf", "quantity": 1},
                {"id": "l1", "kind": "TaskLoadBuffer", "task": "t1", "buffer": "bf", "quantity": 2}])))
            # three accesses: every tie pattern on horizon 4
            cells.append((f"{ctag}.ULU.{btag}", base(4, [fx("t0", 1), fx("t1", 1), fx("t2", 2)], buffers=[b],
                                                     constraints=[
                {"id": "u0", "kind": "TaskUnloadBuffer", "task": "t0", "buffer": "bf", "quantity": 1},
                {"id": "l1", "kind": "TaskLoadBuffer", "task": "t1", "buffer": "bf", "quantity": 2},
                {"id": "u2", "kind": "TaskUnloadBuffer", "task": "t2", "buffer": "bf", "quantity": 1}])))
    # one task that unloads at its start and loads the same buffer at its end
    for conc in (False, True):
        cells.append((f"{'conc' if conc else 'nonconc'}.same_task_UL", base(4, [fx("t0", 2), fx("t1", 1)], buffers=[
            {"name": "bf", "concurrent": conc, "initial": 2, "lower": 0}], constraints=[
            {"id": "u0", "kind": "TaskUnloadBuffer", "task": "t0", "buffer": "bf", "quantity": 2},
            {"id": "l0", "kind": "TaskLoadBuffer", "task": "t0", "buffer": "bf", "quantity": 1},
            {"id": "u1", "kind": "TaskUnloadBuffer", "task": "t1", "buffer": "bf", "quantity": 1}])))
    # one task feeding one buffer from another
    cells.append(("chain", base(5, [fx("t0", 2), fx("t1", 1)], buffers=[
        {"name": "b1", "initial": 2, "lower": 0}, {"name": "b2", "initial": 0, "upper": 2}], constraints=[
        {"id": "u0", "kind": "TaskUnloadBuffer", "task": "t0", "buffer": "b1", "quantity": 1},
        {"id": "l0", "kind": "TaskLoadBuffer", "task": "t0", "buffer": "b2", "quantity": 1},
        {"id": "u1", "kind": "TaskUnloadBuffer", "task": "t1", "buffer": "b2", "quantity": 1}])))
    # a load and an unload of the SAME quantity: when they coincide the level does not move at that instant (still an
    # access instant of the report), and three accesses of which two cancel out
    for conc in (False, True):
        ctag = "conc" if conc else "nonconc"
        cells.append((f"{ctag}.cancel.UL", base(4, [fx("t0", 2), vr("t1", 1, 2)], buffers=[
            {"name": "bf", "concurrent": conc, "initial": 3, "lower": 0}], constraints=[
            {"id": "u0", "kind": "TaskUnloadBuffer", "task": "t0", "buffer": "bf", "quantity": 2},
            {"id": "l1", "kind": "TaskLoadBuffer", "task": "t1", "buffer": "bf", "quantity": 2}])))
        cells.append((f"{ctag}.cancel.ULU", base(4, [fx("t0", 1), fx("t1", 1), fx("t2", 1)], buffers=[
            {"name": "bf", "concurrent": conc, "initial": 4, "lower": 0}], constraints=[
            {"id": "u0", "kind": "TaskUnloadBuffer", "task": "t0", "buffer": "bf", "quantity": 3},
            {"id": "l1", "kind": "TaskLoadBuffer", "task": "t1", "buffer": "bf", "quantity": 3},
            {"id": "u2", "kind": "TaskUnloadBuffer", "task": "t2", "buffer": "bf", "quantity": 1}])))
    # equal quantities in the same direction (the array / function encodings cannot tell the two accesses apart),
    # with and without an OPTIONAL accessing task next to them
    for conc in (False, True):
        ctag = "conc" if conc else "nonconc"
        for otag, extra_t, extra_c in (("plain", [], []),
                                       ("opt_loader", [fx("o", 1, optional=True)],
                                        [{"id": "l2", "kind": "TaskLoadBuffer", "task": "o", "buffer": "bf", "quantity": 2}]),
                                       ("opt_unloader", [vr("o", 1, 2, optional=True)],
                                        [{"id": "u2", "kind": "TaskUnloadBuffer", "task": "o", "buffer": "bf", "quantity": 1}])):
            cells.append((f"{ctag}.same_quantity.{otag}", base(3, [fx("t0", 1), fx("t1", 2)] + extra_t, buffers=[
                {"name": "bf", "concurrent": conc, "initial": 3, "lower": 0}], constraints=[
                {"id": "u0", "kind": "TaskUnloadBuffer", "task": "t0", "buffer": "bf", "quantity": 1},
                {"id": "u1", "kind": "TaskUnloadBuffer", "task": "t1", "buffer": "bf", "quantity": 1}] + extra_c)))
    # several buffers of the same kind in one problem, accessed at coinciding instants with different quantities
    for c1, c2 in ((False, False), (True, True), (False, True)):
        tag = f"{'c' if c1 else 'n'}{'c' if c2 else 'n'}"
        two = [{"name": "b1", "concurrent": c1, "initial": 5, "lower": 0}, {"name": "b2", "concurrent": c2, "initial": 1,
                                                                            "upper": 6}]
        # one task unloading both at its start
        cells.append((f"two.{tag}.same_task_UU", base(4, [fx("t0", 2), fx("t1", 1)], buffers=copy.deepcopy(two), constraints=[
            {"id": "u0", "kind": "TaskUnloadBuffer", "task": "t0", "buffer": "b1", "quantity": 3},
            {"id": "u1", "kind": "TaskUnloadBuffer", "task": "t0", "buffer": "b2", "quantity": 1},
            {"id": "l1", "kind": "TaskLoadBuffer", "task": "t1", "buffer": "b2", "quantity": 2}])))
        # a pipeline: every task unloads b1 at its start and loads b2 at its end (back-to-back tasks coincide)
        cells.append((f"two.{tag}.pipeline", base(5, [fx("t0", 2), fx("t1", 2)], buffers=copy.deepcopy(two), constraints=[
            {"id": "u0", "kind": "TaskUnloadBuffer", "task": "t0", "buffer": "b1", "quantity": 1},
            {"id": "l0", "kind": "TaskLoadBuffer", "task": "t0", "buffer": "b2", "quantity": 1},
            {"id": "u1", "kind": "TaskUnloadBuffer", "task": "t1", "buffer": "b1", "quantity": 2},
            {"id": "l1", "kind": "TaskLoadBuffer", "task": "t1", "buffer": "b2", "quantity": 2}])))
        # a zero-duration task moving a quantity from one buffer to the other while another task accesses both
        cells.append((f"two.{tag}.zero_transfer", base(4, [zr("t0"), fx("t1", 1)], buffers=copy.deepcopy(two), constraints=[
            {"id": "u0", "kind": "TaskUnloadBuffer", "task": "t0", "buffer": "b1", "quantity": 2},
            {"id": "l0", "kind": "TaskLoadBuffer", "task": "t0", "buffer": "b2", "quantity": 3},
            {"id": "u1", "kind": "TaskUnloadBuffer", "task": "t1", "buffer": "b2", "quantity": 1},
            {"id": "l1", "kind": "TaskLoadBuffer", "task": "t1", "buffer": "b1", "quantity": 1}])))
    return cells
