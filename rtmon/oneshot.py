"""Child-process helpers.

signature (C14): fresh-interpreter reference - computes the signature of one Spec in a new interpreter.
solve (C15)    : runs a list of solver configurations on one Spec, one JSON line per configuration, flushed,
                 so that a native crash of libz3 in one configuration loses nothing else.
"""
import json
import sys

from rtmon import instrument as ins

ins.install()
ins.assert_repo_under_test()


def main():
    with open(sys.argv[1]) as f:
        job = json.load(f)
    kind = job.get("kind", "signature")
    if kind == "signature":
        from rtmon.monitors import c14
        sig = c14.signature(job["spec"], job["cands"])
        print("SIGNATURE " + json.dumps(sig))
        return
    from rtmon.monitors import c15
    for idx, cfg in job["configs"]:
        print("START " + json.dumps(idx), flush=True)
        out = c15.solve_one(job["spec"], cfg, job["rng"] + idx)
        print("RESULT " + json.dumps([idx, out], default=str), flush=True)


if __name__ == "__main__":
    main()
