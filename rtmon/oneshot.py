"""Fresh-process reference for C14: computes the signature of one Spec in a new
interpreter (nothing was built or solved before it)."""
import json
import sys

from rtmon import instrument as ins

ins.install()
ins.assert_repo_under_test()

from rtmon.monitors import c14  # noqa: E402


def main():
    with open(sys.argv[1]) as f:
        job = json.load(f)
    sig = c14.signature(job["spec"], job["cands"])
    print("SIGNATURE " + json.dumps(sig))


if __name__ == "__main__":
    main()
