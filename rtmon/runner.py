"""Driver: shards the cases of a check over worker subprocesses, collects the
per-case verdicts, classifies violations against known_findings.json, writes
evidence/<id>.json and replay files, prints the verdict lines and returns the
exit code (0 held / 1 violation / 2 inconclusive)."""
import hashlib
import importlib
import json
import os
import shutil
import subprocess
import sys
import tempfile
import threading
import time

ROOT = os.path.dirname(os.path.dirname(os.path.abspath(__file__)))
PY = os.environ.get("RTMON_PYTHON", "/venv/bin/python")
NCPU = int(os.environ.get("RTMON_JOBS", str(os.cpu_count() or 4)))


def load_monitor(prop):
    return importlib.import_module(f"rtmon.monitors.{prop.lower()}")


def repo_state():
    repo = os.environ.get("RTMON_REPO", "/repo")
    try:
        head = subprocess.run(["git", "-C", repo, "rev-parse", "HEAD"], capture_output=True,
                              text=True, timeout=20).stdout.strip()
        diff = subprocess.run(["git", "-C", repo, "diff", "HEAD", "--", "processscheduler"],
                              capture_output=True, text=True, timeout=20).stdout
        return {"head": head, "worktree_diff_sha": hashlib.sha1(diff.encode()).hexdigest()[:12],
                "dirty": bool(diff)}
    except Exception as exc:  # pylint: disable=broad-except
        return {"head": None, "error": str(exc)}


def load_findings():
    path = os.path.join(ROOT, "known_findings.json")
    if not os.path.exists(path):
        return []
    with open(path) as f:
        return json.load(f)["findings"]


def match_finding(prop, viol, findings):
    """a violation is known iff an *open* entry of the same property matches its
    clause, direction and every structural feature the entry names."""
    for fd in findings:
        if fd["property"] != prop or fd.get("status", "open") != "open":
            continue
        m = fd["match"]
        cl = m.get("clause")
        if cl is not None:
            if cl.endswith("*"):
                if not viol["clause"].startswith(cl[:-1]):
                    continue
            elif viol["clause"] != cl:
                continue
        if m.get("direction") is not None and viol.get("direction") != m["direction"]:
            continue
        feats = viol.get("features", {})
        ok = True
        for k, v in (m.get("features") or {}).items():
            fv = feats.get(k)
            if isinstance(v, list):
                if fv not in v:
                    ok = False
            elif fv != v:
                ok = False
        if ok:
            return fd
    return None


def _run_shard(args, out_path, log_path, timeout):
    env = dict(os.environ)
    env["PYTHONPATH"] = ROOT + (os.pathsep + env["PYTHONPATH"] if env.get("PYTHONPATH") else "")
    env.setdefault("PYTHONHASHSEED", "0")
    env["MPLBACKEND"] = "Agg"
    with open(log_path, "ab") as lf:
        try:
            p = subprocess.run([PY, "-X", "faulthandler", "-m", "rtmon.worker"] + args + [out_path],
                               stdout=lf, stderr=lf, timeout=timeout, env=env, cwd=os.path.dirname(out_path))
            return p.returncode
        except subprocess.TimeoutExpired:
            return "timeout"


def run_check(prop, tier, seed, replay=None, out=sys.stdout):
    t0 = time.time()
    mon = load_monitor(prop)
    findings = load_findings()
    scratch = tempfile.mkdtemp(prefix=f"rtmon_{prop}_")
    results = []
    inconclusive_infra = []
    try:
        if replay is not None:
            with open(replay) as f:
                rp = json.load(f)
            case_file = os.path.join(scratch, "replay_case.json")
            with open(case_file, "w") as f:
                json.dump(rp["case"], f)
            outp = os.path.join(scratch, "replay.out")
            rc = _run_shard([prop, "replay", case_file], outp, os.path.join(scratch, "replay.log"), 1800)
            if os.path.exists(outp):
                with open(outp) as f:
                    results = [json.loads(l) for l in f if l.strip()]
            if not results:
                with open(os.path.join(scratch, "replay.log"), errors="replace") as f:
                    out.write(f.read()[-2000:])
                out.write(f"INCONCLUSIVE property={prop} reason=replay-worker-failed rc={rc}\n")
                return 2
        else:
            nshards = int(os.environ.get("RTMON_SHARDS", str(mon.shards(tier) if hasattr(mon, "shards") else 4 * NCPU)))
            budget = mon.time_budget(tier) if hasattr(mon, "time_budget") else (900 if tier == "quick" else 7200)
            lock = threading.Lock()
            todo = list(range(nshards))

            def work():
                while True:
                    with lock:
                        if not todo:
                            return
                        sh = todo.pop(0)
                    outp = os.path.join(scratch, f"shard{sh}.out")
                    logp = os.path.join(scratch, f"shard{sh}.log")
                    attempts = 0
                    while attempts < 12:
                        attempts += 1
                        rc = _run_shard([prop, "run", tier, str(seed), str(sh), str(nshards)], outp, logp, budget)
                        if rc == 0:
                            break
                        if rc == 17:
                            # per-case watchdog fired: the worker recorded the culprit itself
                            continue
                        # worker died / timed out: the case after the last completed one is the
                        # culprit; it is recorded inconclusive and skipped on the re-run
                        done = 0
                        if os.path.exists(outp):
                            with open(outp) as f:
                                done = sum(1 for l in f if l.strip())
                        with open(outp, "a") as f:
                            f.write(json.dumps({"cid": f"shard{sh}#after{done}", "family": "infra",
                                                "verdict": "inconclusive",
                                                "reason": f"worker rc={rc}", "stats": {}}) + "\n")
                        with lock:
                            tail = ""
                            try:
                                with open(logp, errors="replace") as lf:
                                    tail = lf.read()[-1500:]
                            except OSError:
                                pass
                            inconclusive_infra.append({"shard": sh, "rc": str(rc), "log_tail": tail})

            threads = [threading.Thread(target=work) for _ in range(min(NCPU, nshards))]
            for th in threads:
                th.start()
            for th in threads:
                th.join()
            for sh in range(nshards):
                outp = os.path.join(scratch, f"shard{sh}.out")
                if os.path.exists(outp):
                    with open(outp) as f:
                        for l in f:
                            if l.strip():
                                results.append(json.loads(l))
        return conclude(prop, tier, seed, mon, results, findings, inconclusive_infra, t0, out,
                        write_evidence=(replay is None))
    finally:
        shutil.rmtree(scratch, ignore_errors=True)


def conclude(prop, tier, seed, mon, results, findings, infra, t0, out, write_evidence=True):
    n = len(results)
    n_exec = sum(int(r.get("stats", {}).get("executions", 1) or 0) for r in results)
    verdicts = {"held": 0, "violated": 0, "inconclusive": 0}
    clauses, outcomes, families, counters = {}, {}, {}, {}
    sigs = set()
    known_hit, new_viol = {}, []
    samples = []
    inconc_reasons = {}
    inconc_cids = []
    for r in results:
        verdicts[r["verdict"]] = verdicts.get(r["verdict"], 0) + 1
        st = r.get("stats", {})
        for k, v in st.get("clauses", {}).items():
            clauses[k] = clauses.get(k, 0) + v
        for k, v in st.get("outcomes", {}).items():
            outcomes[k] = outcomes.get(k, 0) + v
        for k, v in st.get("counters", {}).items():
            counters[k] = counters.get(k, 0) + v
        fam = r.get("family", "?")
        fm = families.setdefault(fam, {"cases": 0, "nontrivial": 0, "violated": 0, "inconclusive": 0, "nothing_to_probe": 0})
        fm["cases"] += 1
        if st.get("empty"):
            fm["nothing_to_probe"] += 1
        if st.get("nontrivial"):
            fm["nontrivial"] += 1
            for s in st.get("sigs", [st.get("sig")]):
                if s:
                    sigs.add(s)
        if r["verdict"] == "inconclusive":
            fm["inconclusive"] += 1
            rs_ = r.get("reason", "?")[:60]
            inconc_reasons[rs_] = inconc_reasons.get(rs_, 0) + 1
            if len(inconc_cids) < 10:
                inconc_cids.append(r.get("cid"))
        if r["verdict"] == "violated":
            fm["violated"] += 1
            unknown = []
            for v in r.get("violations", []):
                fd = match_finding(prop, v, findings)
                if fd is not None:
                    kh = known_hit.setdefault(fd["key"], {"count": 0, "what": fd["description"], "example": None})
                    kh["count"] += 1
                    if kh["example"] is None:
                        kh["example"] = {"cid": r["cid"], "clause": v["clause"], "detail": v.get("detail")}
                else:
                    unknown.append(v)
            if unknown:
                new_viol.append((r, unknown))
        if st.get("sample") is not None and len(samples) < 5 and fam not in [s.get("family") for s in samples]:
            samples.append({"family": fam, "cid": r["cid"], **st["sample"]})
    if not samples:
        for r in results[:3]:
            samples.append({"family": r.get("family"), "cid": r.get("cid"), "verdict": r["verdict"]})
    # coverage floors
    floors = mon.floors(tier) if (hasattr(mon, "floors") and write_evidence) else {}
    unmet = []
    for key, minimum in floors.items():
        have = clauses.get(key, counters.get(key, outcomes.get(key, 0)))
        if key == "distinct_nontrivial":
            have = len(sigs)
        if key == "cases":
            have = n
        if have < minimum:
            unmet.append(f"{key}={have}<{minimum}")
    # a family (catalogue kind) in which no case decided anything was not covered
    if write_evidence:
        for fam_name, fm in families.items():
            if fm["cases"] - fm.get("nothing_to_probe", 0) >= 3 and fm["nontrivial"] == 0 and fam_name != "infra":
                unmet.append(f"family {fam_name}: 0/{fm['cases']} cases decided anything")
    inconc = verdicts.get("inconclusive", 0)
    if n == 0:
        unmet.append("no cases ran")
    elif inconc > max(2, 0.02 * n):
        unmet.append(f"inconclusive={inconc}/{n}")
    # replay files: one per distinct mechanism (clause, direction, features)
    replay_dir = os.path.join(os.environ.get("RTMON_REPLAY_DIR") or os.path.join(ROOT, "replays"), prop)
    lines = []
    mech = {}
    for r, unknown in new_viol:
        for v in unknown:
            mk = (v["clause"], v.get("direction"), json.dumps(v.get("features", {}), sort_keys=True))
            m = mech.setdefault(mk, {"count": 0, "first": (r, v)})
            m["count"] += 1
    for mk, m in sorted(mech.items(), key=lambda kv: -kv[1]["count"])[:40]:
        r, v0 = m["first"]
        os.makedirs(replay_dir, exist_ok=True)
        hh = hashlib.sha1(json.dumps([r.get("case"), mk], sort_keys=True, default=str).encode()).hexdigest()[:12]
        path = os.path.join(replay_dir, f"{hh}.json")
        with open(path, "w") as f:
            json.dump({"property": prop, "tier": tier, "seed": seed, "case": r.get("case"),
                       "violations": [v0], "observed": r.get("observed")}, f, indent=1, default=str)
        lines.append(f"VIOLATION property={prop} replay={os.path.relpath(path, ROOT) if path.startswith(ROOT) else path} "
                     f"clause={v0['clause']} direction={v0.get('direction')} "
                     f"features={mk[2]} cases={m['count']}")
    wall = time.time() - t0
    ev = {
        "property_id": prop, "tier": tier if tier in ("quick", "thorough") else "quick", "seed": int(seed),
        "level": "exploration",
        "coverage": {
            "evaluations": n_exec,
            "cases": n,
            "distinct_nontrivial": len(sigs),
            "rule": getattr(mon, "RULE", ""),
            "samples": samples,
            "verdicts": verdicts,
            "clauses": dict(sorted(clauses.items())),
            "outcomes": outcomes,
            "families": families,
            "monitor_counters": counters,
            "inconclusive_reasons": inconc_reasons,
            "inconclusive_cases": inconc_cids,
            "infra_failures": infra[:5],
            "known_findings_hit": known_hit,
            "unlisted_violations": len(new_viol),
            "unlisted_mechanisms": [{"clause": k[0], "direction": k[1], "features": json.loads(k[2]), "cases": m["count"]}
                                    for k, m in sorted(mech.items(), key=lambda kv: -kv[1]["count"])][:40],
            "floors": floors, "floors_unmet": unmet,
            "repo": repo_state(),
            "exhaustive": bool(getattr(mon, "EXHAUSTIVE", {}).get(tier, False)),
        },
        "assumptions": getattr(mon, "ASSUMPTIONS", []),
        "wall_s": round(wall, 2),
        "violations": len(new_viol),
    }
    if write_evidence:
        evdir = os.environ.get("RTMON_EVIDENCE_DIR") or os.path.join(ROOT, "evidence")
        os.makedirs(evdir, exist_ok=True)
        with open(os.path.join(evdir, f"{prop}.json"), "w") as f:
            json.dump(ev, f, indent=1, default=str)
    # one line per listed (open) finding of this property, with how often this run met it
    listed = {}
    for fd in findings:
        if fd["property"] == prop and fd.get("status", "open") == "open":
            listed.setdefault(fd["key"], fd["description"])
    if write_evidence:
        for key, what in sorted(listed.items()):
            cnt = known_hit.get(key, {}).get("count", 0)
            out.write(f"KNOWN-FINDING: property={prop} {key}: {what} (met {cnt}x in this run)\n")
    else:
        for key, kh in sorted(known_hit.items()):
            out.write(f"KNOWN-FINDING: property={prop} {key}: {kh['what']} (met {kh['count']}x in this run)\n")
    out.write(f"{prop} tier={tier} seed={seed}: cases={n} executions={n_exec} nontrivial-distinct={len(sigs)} "
              f"held={verdicts.get('held', 0)} violated={verdicts.get('violated', 0)} "
              f"inconclusive={inconc} wall={wall:.1f}s\n")
    if lines:
        for l in lines:
            out.write(l + "\n")
        return 1
    if unmet:
        out.write(f"INCONCLUSIVE property={prop} reason={';'.join(unmet)}\n")
        return 2
    return 0
