"""C05 — no valid schedule is lost: every strong-valid candidate is admitted."""
import random
import re

from . import common, c01
from .. import families, gen

PROPERTY = "C05"
PREFIXES = ("C05.",)
RULE = ("for every catalogue cell of C01-C04, C06 and C09 the z3-free enumerator lists the candidates that satisfy the "
        "STRONG reading of every element (band candidates are executed but not judged); each is pinned completely "
        "(times, durations, optional flags, selections, dynamic spans - auxiliaries stay existential) and the real solver "
        "must not answer unsat. On a refusal the harness minimises the Spec (drops elements while the refusal persists) "
        "to name the mechanism. non-trivial = a strong-valid candidate got a definite answer; distinct = (spec, candidate).")
ASSUMPTIONS = ["completeness is claimed against the strong reading only and on the enumerated sizes",
               "unknown / timeouts are inconclusive"]
EXHAUSTIVE = {"quick": False, "thorough": False}


def optional_cells():
    """optional-task rules and optional tasks combined with other features"""
    from ..families import base, fx, vr, zr
    cells = []
    H = 4
    for tag, o in (("f", fx("o", 2, optional=True)), ("v", vr("o", 1, 2, optional=True)), ("z", zr("o", optional=True))):
        cells.append((f"opt.plain.{tag}", base(H, [dict(o), fx("t1", 1)])))
        cells.append((f"opt.release.{tag}", base(H, [dict(o, release_date=1), fx("t1", 1)])))
        cells.append((f"opt.deadline.{tag}", base(H, [dict(o, due_date=3), fx("t1", 1)])))
        cells.append((f"opt.worker.{tag}", base(H, [dict(o), fx("t1", 1)], workers=[{"name": "w0"}], requirements=[
            {"task": "o", "resource": "w0"}, {"task": "t1", "resource": "w0"}])))
        cells.append((f"opt.selection.{tag}", base(H, [dict(o), fx("t1", 1)], workers=[{"name": "w0"}, {"name": "w1"}],
                                                   selections=[{"id": "s0", "workers": ["w0", "w1"], "n": 1, "kind": "exact"}],
                                                   requirements=[{"task": "o", "resource": "s0"}, {"task": "t1", "resource": "w0"}])))
        cells.append((f"opt.cumulative.{tag}", base(H, [dict(o), fx("t1", 1)], cumulative=[{"name": "cu", "size": 2}],
                                                    requirements=[{"task": "o", "resource": "cu"}, {"task": "t1", "resource": "cu"}])))
        for kind, extra in (("OptionalTaskForceSchedule", {"task": "o", "value": True}),
                            ("OptionalTaskForceSchedule", {"task": "o", "value": False}),
                            ("OptionalTaskConditionSchedule", {"task": "o", "cond": [">=", ["start", "t1"], 2]}),
                            ("OptionalTasksDependency", {"t1": "t1", "t2": "o"}),
                            ("ForceScheduleNOptionalTasks", {"tasks": ["o"], "n": 1, "mode": "max"})):
            cells.append((f"opt.rule.{kind}.{extra.get('value', '')}.{tag}", base(H, [dict(o), fx("t1", 1)], constraints=[
                dict({"id": "c", "kind": kind}, **extra)])))
    two = [fx("o1", 1, optional=True), fx("o2", 2, optional=True), fx("t", 1)]
    for mode in ("exact", "min", "max"):
        for n in (1, 2):
            cells.append((f"opt.forceN.{mode}{n}", base(3, [dict(t) for t in two], constraints=[
                {"id": "c", "kind": "ForceScheduleNOptionalTasks", "tasks": ["o1", "o2"], "n": n, "mode": mode}])))
    cells.append(("opt.dependency2", base(3, [dict(t) for t in two], constraints=[
        {"id": "c", "kind": "OptionalTasksDependency", "t1": "o1", "t2": "o2"}])))
    cells.append(("opt.work_amount", base(4, [vr("o", 1, 3, optional=True, work_amount=2)], workers=[{"name": "w0"}],
                                          requirements=[{"task": "o", "resource": "w0"}])))
    return cells


def all_cells(tier):
    cells = []
    for i, spec in enumerate(c01.single_specs()):
        cells.append((f"C01.single{i}", spec))
    cells += [("C02." + n, s) for n, s in families.c02_cells(tier)]
    cells += [("C03." + n, s) for n, s in families.c03_cells(tier)]
    cells += [("C04." + n, s) for n, s in families.c04_cells(tier)]
    cells += [("C09." + n, s) for n, s in families.c09_cells(tier)]
    cells += [("C06." + n, s) for n, s in optional_cells()]
    return cells


def generate(tier, seed):
    cases = []
    rng = random.Random(seed)
    cells = all_cells(tier)
    for name, spec in cells:
        spec = dict(spec)
        for k in ("workers", "cumulative", "selections", "requirements", "buffers", "constraints", "indicators", "objectives"):
            spec.setdefault(k, [])
        cases.append({"cid": f"cell-{name}", "family": "cell:" + re.sub(r"\d+$", "", ".".join(name.split(".")[:2])), "kind": "grid",
                      "spec": spec, "wide": False, "only": ["valid", "band"], "limit": 60 if tier == "quick" else 2000,
                      "rng": seed})
    nmix = 80 if tier == "quick" else 1500
    for i in range(nmix):
        r = random.Random(f"{seed}-c05-mix-{i}")
        spec = gen.random_spec(r, n_tasks=r.randint(2, 3 if tier == "quick" else 4))
        cases.append({"cid": f"mix-{i}", "family": "mixture", "kind": "grid", "spec": spec, "wide": False,
                      "only": ["valid", "band"], "limit": 150 if tier == "quick" else 600, "rng": seed * 1000 + i})
    return cases


def run_case(case):
    return common.run_generic(case, PREFIXES, completeness=True)


def floors(tier):
    return {"distinct_nontrivial": 3000, "sat|valid": 3000}


def shards(tier):
    return 96
