"""Shared case kinds for the schedule-validity monitors.

case kinds
  grid   : enumerate the candidate grid of a micro-Spec inside the worker and
           pin-probe every candidate (one execution of the real solver each)
  probe  : pin-probe one listed candidate
  solve  : one free / steered solve, the returned schedule is judged
A monitor module selects which clause prefixes it *decides*; other clauses are
evaluated and counted but never reported by that check.
"""
import hashlib
import json
import random

from .. import cands as cd
from .. import probe as pr
from .. import refsem as rs
from ..observe import strip_raw


def h(obj):
    return hashlib.sha1(json.dumps(obj, sort_keys=True, default=str).encode()).hexdigest()[:12]


def kinds_in(spec):
    ks = set()
    for c, _ in rs.all_constraints(spec):
        ks.add(c["kind"])
    return ks


def features_for(spec, clause, detail, cand=None):
    """structural features of a witness, used as the mechanism key of findings"""
    f = {}
    tn = detail.get("task") if isinstance(detail, dict) else None
    if tn:
        try:
            ts = rs.task_spec(spec, tn)
            f["task_type"] = ts["type"]
            f["task_optional"] = bool(ts.get("optional"))
        except KeyError:
            pass
    if isinstance(detail, dict):
        if detail.get("kind"):
            f["kind"] = detail["kind"]
        for key in ("worker", "resource", "cumulative"):
            if detail.get(key):
                f["resource_kind"] = "cumulative" if rs.cumulative_spec(spec, detail[key]) else "worker"
        # a cumulative worker reached only through a SelectWorkers that lists it
        res_name = detail.get("resource") or detail.get("worker") or detail.get("cumulative")
        if res_name is None and detail.get("want"):
            res_name = None
        for sel in spec.get("selections", []):
            cums = [w for w in sel["workers"] if rs.cumulative_spec(spec, w)]
            if cums and (res_name in cums or (tn and any(r["task"] == tn and r["resource"] == sel["id"]
                                                          for r in spec.get("requirements", [])))):
                f["selection_over_cumulative"] = True
        if tn and tn in (spec.get("sel_over_cumulative") or {}):
            f["selection_over_cumulative"] = True
        if clause.startswith("C08.obj."):
            f["objective"] = clause[len("C08.obj."):]
        if detail.get("kind") in rs.LOGIC and detail.get("id") is not None:
            for c, _top in rs.all_constraints(spec):
                if c.get("id") == detail["id"]:
                    f["aux_under_negation"] = aux_under_negation(c)
        cid = detail.get("id")
        if cid is not None and detail.get("kind"):
            for c, _top in rs.all_constraints(spec):
                if c.get("id") == cid and "resource" in c:
                    f["resource_kind"] = "cumulative" if rs.cumulative_spec(spec, c["resource"]) else "worker"
                    if "period" in c:
                        f["activity_window"] = bool(c.get("start") or c.get("end") is not None)
                        f["tasks_on_resource"] = min(2, sum(
                            1 for r in spec.get("requirements", []) if r["resource"] == c["resource"]))
    return f


AUX_KINDS = {"TasksContiguous", "ScheduleNTasksInTimeIntervals", "UnorderedTaskGroup", "OrderedTaskGroup", "WorkLoad",
             "ResourceTasksDistance", "ResourceNonDelay"}


def aux_under_negation(c, negative=False):
    """does a constraint whose encoding introduces auxiliary unknowns occur with negative
    polarity (under Not, or under Xor) inside formula c?"""
    k = c.get("kind")
    if k in AUX_KINDS:
        return negative
    if k == "Not":
        return aux_under_negation(c["arg"], True)
    if k == "Xor":
        return aux_under_negation(c["a"], True) or aux_under_negation(c["b"], True)
    return any(aux_under_negation(o, negative) for o in rs.operands(c) if isinstance(o, dict))


class Acc:
    """accumulates what one case observed"""

    def __init__(self, prefixes):
        self.prefixes = tuple(prefixes)
        self.clauses = {}
        self.outcomes = {}
        self.violations = []
        self.sigs = set()
        self.executions = 0
        self.inconclusive = []
        self.sample = None
        self.observed = None
        self.empty_ok = False

    def count(self, d, k, n=1):
        d[k] = d.get(k, 0) + n

    def mine(self, clause):
        return clause.startswith(self.prefixes)

    def add_report(self, rep, tag):
        for cl, o, _ in rep.items:
            self.count(self.clauses, f"{cl}:{o}@{tag}")

    def violation(self, clause, direction, features, detail):
        # one witness per (clause, direction, features) and case is enough
        key = (clause, direction, json.dumps(features, sort_keys=True))
        if any((v["clause"], v["direction"], json.dumps(v["features"], sort_keys=True)) == key
               for v in self.violations):
            return
        if len(self.violations) < 12:
            self.violations.append({"clause": clause, "direction": direction, "features": features,
                                    "detail": detail})

    def result(self, extra_stats=None):
        verdict = "held"
        reason = None
        if self.violations:
            verdict = "violated"
        elif self.executions == 0 and self.empty_ok:
            verdict = "held"
        elif self.executions == 0 or (self.inconclusive and len(self.inconclusive) >= max(1, self.executions // 2)):
            verdict = "inconclusive"
            reason = (self.inconclusive[0] if self.inconclusive else "no execution")
        st = {"clauses": self.clauses, "outcomes": self.outcomes, "nontrivial": bool(self.sigs),
              "sigs": sorted(self.sigs), "executions": self.executions, "sample": self.sample,
              "empty": bool(self.empty_ok and not self.executions)}
        if extra_stats:
            st.update(extra_stats)
        out = {"verdict": verdict, "violations": self.violations, "stats": st}
        if reason:
            out["reason"] = str(reason)[:200]
        if self.violations and self.observed is not None:
            out["observed"] = self.observed
        return out


def judge_observed(acc, spec, res, tag="sat", pinned=None, user_horizon=True):
    """run every soundness clause on the schedule the solver returned; report
    the failures of the clauses this monitor decides."""
    S = res["sched"]
    rep, P = rs.evaluate_observed(spec, S, user_horizon)
    acc.add_report(rep, tag)
    decided = False
    for cl, o, d in rep.items:
        if acc.mine(cl) and o in (rs.T, rs.F):
            decided = True
    for cl, d in rep.failed():
        if acc.mine(cl):
            feats = features_for(spec, cl, d)
            acc.violation(cl, "admitted-invalid" if not cl.startswith(("C08", "C11", "C09.replay")) else "wrong-value",
                          feats, {"clause_detail": d, "pinned": pinned})
            acc.observed = strip_raw(S)
    return rep, P, decided


def probe_one(acc, spec, cand, cfg=None, completeness=False, status=None, rep_c=None):
    """pin a candidate, run the real solver, judge.  Returns outcome string."""
    if status is None:
        status, rep_c = cd.classify(spec, cand)
    pins = pr.candidate_pins(spec, cand)
    res = pr.run_solve(spec, {"pins": pins, "solver": cfg or {}})
    acc.executions += 1
    out = res["outcome"]
    acc.count(acc.outcomes, f"{out}|{status}")
    sig = h([h(spec), cd.cand_key(cand), cfg])
    if out in ("unknown", "nosolution"):
        acc.inconclusive.append(f"solver {out}")
        return out
    if out in ("build_error", "exception"):
        if completeness and status == "valid":
            acc.violation("C05.exception", "exception",
                          {"exc": res["exc"].get("type"), "stage": res["exc"].get("stage"),
                           "kinds": sorted(kinds_in(spec))},
                          {"exc": res["exc"], "cand": cand})
            acc.sigs.add(sig)
        else:
            acc.count(acc.outcomes, f"exc:{res['exc'].get('type')}")
        return out
    if out == "sat":
        _rep, _P, decided = judge_observed(acc, spec, res, tag="sat", pinned=cand)
        if decided or (completeness and status == "valid"):
            acc.sigs.add(sig)
        if acc.sample is None:
            acc.sample = {"spec": spec, "pinned_candidate": cand, "candidate_status": status,
                          "outcome": out, "observed_tasks": res["sched"]["tasks"] and {
                              n: [t["scheduled"], t["start"], t["end"]] for n, t in res["sched"]["tasks"].items()}}
    elif out == "unsat":
        # the refusal is the observation: deciding if the candidate breaks one of
        # this monitor's clauses (soundness) or is valid (completeness)
        failed_mine = [cl for cl, _ in rep_c.failed() if acc.mine(cl)]
        if failed_mine:
            acc.sigs.add(sig)
            for cl in set(failed_mine):
                acc.count(acc.clauses, f"{cl}:refused")
        if completeness and status == "valid":
            acc.sigs.add(sig)
            culprit, feats = culprit_of(spec, cand, cfg)
            feats["culprit"] = culprit
            acc.violation("C05.rejected_valid", "rejected-valid", feats, {"cand": cand, "culprit": culprit})
    return out


# ---------------------------------------------------------------------------
# mechanism identification for completeness violations: which elements must be
# present for the (valid) candidate to be refused?
# ---------------------------------------------------------------------------
def _without(spec, field, idx):
    s2 = dict(spec)
    lst = list(spec.get(field, []))
    del lst[idx]
    s2[field] = lst
    return s2


def _admitted(spec, cand, cfg):
    try:
        res = pr.run_solve(spec, {"pins": pr.candidate_pins(spec, cand), "solver": cfg or {}})
    except Exception:  # pylint: disable=broad-except
        return None
    return res["outcome"]


def culprit_of(spec, cand, cfg=None):
    """greedy minimisation: drop constraints / indicators / objectives / buffers
    ops one by one while the candidate stays refused.  Returns (kinds, feats)."""
    cur = spec
    changed = True
    budget = 40
    while changed and budget > 0:
        changed = False
        for field in ("constraints", "indicators", "objectives"):
            i = 0
            while i < len(cur.get(field, [])) and budget > 0:
                trial = _without(cur, field, i)
                # indicators referenced by remaining constraints must stay
                ok_ref = True
                if field == "indicators":
                    iid = cur[field][i]["id"]
                    blob = json.dumps(trial.get("constraints", [])) + json.dumps(trial.get("objectives", []))
                    if f'"{iid}"' in blob:
                        ok_ref = False
                if field == "constraints":
                    cid = cur[field][i].get("id")
                    blob = json.dumps([c for c in trial.get("constraints", [])])
                    if cid is not None and f'"{cid}"' in blob:
                        ok_ref = False
                if ok_ref:
                    try:
                        still_valid = cd.classify(trial, cand)[0] == "valid"
                    except Exception:  # pylint: disable=broad-except
                        still_valid = False
                    if not still_valid:
                        i += 1
                        continue
                    budget -= 1
                    if _admitted(trial, cand, cfg) == "unsat":
                        cur = trial
                        changed = True
                        continue
                i += 1
    kinds = sorted({c["kind"] + ("." + c["mode"] if c.get("mode") else "") for c in cur.get("constraints", [])}
                   | {"ind:" + i["kind"] for i in cur.get("indicators", [])}
                   | {"obj:" + o["kind"] for o in cur.get("objectives", [])})
    feats = {k: v for k, v in witness_features(cur, cand).items() if v not in (False, [], None, 0)}
    return "+".join(kinds) if kinds else "core", feats


def witness_features(spec, cand):
    """structural facts about a (minimised) spec + candidate"""
    f = {}
    tk = cand["tasks"]
    types = {t["name"]: t for t in spec["tasks"]}
    f["any_unscheduled"] = any(not v["scheduled"] for v in tk.values())
    f["unscheduled_has_release"] = any((not v["scheduled"]) and types[n].get("release_date") for n, v in tk.items())
    f["unscheduled_has_deadline"] = any((not v["scheduled"]) and types[n].get("due_date") is not None
                                        and types[n].get("due_date_is_deadline", True) for n, v in tk.items())
    f["unscheduled_has_work_amount"] = any((not v["scheduled"]) and (types[n].get("work_amount") or 0) > 0
                                           for n, v in tk.items())
    f["unscheduled_type"] = sorted({types[n]["type"] for n, v in tk.items() if not v["scheduled"]})
    f["zero_len_task"] = any(v["scheduled"] and v["start"] == v["end"] for v in tk.values())
    f["has_cumulative"] = bool(spec.get("cumulative"))
    f["has_buffer"] = bool(spec.get("buffers"))
    for c in spec.get("constraints", []):
        k = c["kind"]
        if k == "WorkLoad":
            P = rs.plain_from_candidate(spec, cand)
            lst = P["busy"].get(c["resource"], [])
            f["workload_span_contains_interval"] = any(s < lo and e > hi for _, s, e in lst for lo, hi, _b in c["map"])
        if k in ("UnorderedTaskGroup", "OrderedTaskGroup"):
            f["group_no_window"] = c.get("interval") is None and c.get("length") is None
            f["group_unscheduled_member"] = any(not tk[n]["scheduled"] for n in c["tasks"])
        if k == "DistinctWorkers":
            s1, s2 = rs.selection_spec(spec, c["s1"]), rs.selection_spec(spec, c["s2"])
            f["distinct_common_workers"] = len(set(s1["workers"]) & set(s2["workers"]))
        if k == "TasksDontOverlap":
            a, b = tk[c["t1"]], tk[c["t2"]]
            f["both_zero_same_instant"] = (a["scheduled"] and b["scheduled"] and a["start"] == a["end"] ==
                                           b["start"] == b["end"])
        if k in ("TaskLoadBuffer", "TaskUnloadBuffer"):
            ops = [(x["task"], x["buffer"]) for x in spec["constraints"]
                   if x["kind"] in ("TaskLoadBuffer", "TaskUnloadBuffer")]
            f["same_task_twice_on_buffer"] = len(ops) != len(set(ops))
        if k in ("ResourceInterrupted", "ResourcePeriodicallyInterrupted"):
            f["interrupted"] = True
    return f


# ---------------------------------------------------------------------------
# case kinds
# ---------------------------------------------------------------------------
def run_grid(acc, case, completeness=False):
    """enumerate the candidate grid, classify every candidate with refsem (cheap),
    keep the ones this check wants, and pin-probe them (all, or a seeded sample
    of `limit`)."""
    spec = case["spec"]
    rng = random.Random(case.get("rng", 0))
    wide = case.get("wide", True)
    kept = []
    total = 0
    for cand in cd.enumerate_candidates(spec, wide=wide, limit=case.get("enum_limit", 8000), rng=rng,
                                        task_lo=case.get("lo"), task_hi=case.get("hi"), sel_wide=case.get("sel_wide")):
        total += 1
        status, rep_c = cd.classify(spec, cand)
        if case.get("only") and status not in case["only"]:
            continue
        if case.get("skip_foreign_invalid") and status == "invalid":
            if not any(acc.mine(cl) for cl, _ in rep_c.failed()):
                continue
        kept.append((cand, status, rep_c))
    acc.count(acc.outcomes, "grid_candidates", total)
    lim = case.get("limit")
    if lim is not None and len(kept) > lim:
        kept = rng.sample(kept, lim)
        acc.count(acc.outcomes, "grid_sampled")
    else:
        acc.count(acc.outcomes, "grid_complete")
    if not kept:
        acc.empty_ok = True
        acc.count(acc.outcomes, "grid_nothing_to_probe")
    for cand, status, rep_c in kept:
        probe_one(acc, spec, cand, case.get("solver"), completeness, status, rep_c)
    return len(kept)


def run_solve_case(acc, case):
    spec = case["spec"]
    res = pr.run_solve(spec, case.get("plan"))
    acc.executions += 1
    out = res["outcome"]
    acc.count(acc.outcomes, out)
    if out == "sat":
        _rep, _P, decided = judge_observed(acc, spec, res, tag="free",
                                           user_horizon=case.get("user_horizon", True))
        if decided:
            acc.sigs.add(h([h(spec), case.get("plan")]))
        if acc.sample is None:
            acc.sample = {"spec": spec, "plan": case.get("plan"), "outcome": out,
                          "observed_tasks": {n: [t["scheduled"], t["start"], t["end"]]
                                             for n, t in res["sched"]["tasks"].items()},
                          "indicators": res["sched"]["indicators"]}
    elif out in ("unknown", "nosolution"):
        acc.inconclusive.append(f"solver {out}")
    elif out in ("build_error", "exception"):
        acc.count(acc.outcomes, f"exc:{res['exc'].get('type')}")
        if case.get("must_build"):
            acc.inconclusive.append(f"{out}:{res['exc']}")
    return res


def run_suite_case(acc, case):
    """L7: the repository's own tests under the universal monitors (rtmon/suite_plugin.py)"""
    import os
    import shutil
    import subprocess
    import sys
    import tempfile
    root = os.path.dirname(os.path.dirname(os.path.dirname(os.path.abspath(__file__))))
    repo = os.environ.get("RTMON_REPO", "/repo")
    tests = os.path.join(repo, "test") if os.path.isdir(os.path.join(repo, "test")) else "/repo/test"
    scratch = tempfile.mkdtemp(prefix="rtmon_suite_")
    out = os.path.join(scratch, "suite.jsonl")
    env = dict(os.environ, RTMON_SUITE_OUT=out, MPLBACKEND="Agg")
    env["PYTHONPATH"] = root + os.pathsep + env.get("PYTHONPATH", "")
    try:
        subprocess.run([sys.executable, "-m", "pytest", "-q", "-p", "no:cacheprovider", "-p", "rtmon.suite_plugin",
                        "-n", str(case.get("jobs", 8)), "--dist", "loadfile"] +
                       [a for d in case.get("deselect", []) for a in ("--deselect", "test/" + d)] + [tests],
                       cwd=scratch, env=env,
                       stdout=subprocess.DEVNULL, stderr=subprocess.DEVNULL, timeout=1500)
        recs = []
        if os.path.exists(out):
            with open(out) as f:
                recs = [json.loads(l) for l in f if l.strip()]
    finally:
        shutil.rmtree(scratch, ignore_errors=True)
    acc.count(acc.outcomes, "suite_solutions", len(recs))
    acc.count(acc.outcomes, "suite_tests_with_solutions", len({r.get("test") for r in recs}))
    for r in recs:
        acc.executions += 1
        if r.get("harness_error"):
            acc.count(acc.outcomes, "suite_extraction_error")
            continue
        for k2, v in r.get("clauses", {}).items():
            acc.count(acc.clauses, k2 + "@suite", v)
        decided = any(acc.mine(k2) for k2 in r.get("clauses", {}))
        if decided:
            acc.sigs.add(h([r.get("test"), r.get("problem"), r.get("clauses")]))
        for fl in r.get("failed", []):
            if acc.mine(fl["clause"]):
                feats = features_for({"tasks": [], "selections": [], "requirements": [], "cumulative": [],
                                      "sel_over_cumulative": r.get("sel_over_cumulative") or {}}, fl["clause"],
                                     {"task": (fl["detail"] or {}).get("task")})
                feats = {k3: v3 for k3, v3 in feats.items() if k3 == "selection_over_cumulative"}
                acc.violation(fl["clause"], "admitted-invalid", dict(feats, workload="suite"),
                              {"test": r.get("test"), "problem": r.get("problem"), "clause_detail": fl["detail"]})
    if acc.sample is None and recs:
        acc.sample = {"workload": "repository test-suite under the monitors", "solutions_judged": len(recs),
                      "example": {k2: recs[0].get(k2) for k2 in ("test", "problem", "n_tasks", "n_constraints", "skipped")}}
    if not recs:
        acc.inconclusive.append("suite produced no solution records")


def run_generic(case, prefixes, completeness=False):
    acc = Acc(prefixes)
    k = case["kind"]
    if k == "suite":
        run_suite_case(acc, case)
        return acc.result()
    if k == "grid":
        run_grid(acc, case, completeness)
    elif k == "probe":
        probe_one(acc, case["spec"], case["cand"], case.get("solver"), completeness)
    elif k == "solve":
        run_solve_case(acc, case)
    else:
        raise ValueError(k)
    return acc.result()
