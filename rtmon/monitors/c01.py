"""C01 — returned schedules obey task timing: window, duration, release, deadline."""
import itertools
import random

from . import common
from .. import gen

PROPERTY = "C01"
PREFIXES = ("C01.",)
RULE = ("families: single (one task: type x optional x release x due x deadline-flag x horizon, the whole "
        "grid start in [-2,H+1] x durations pinned through TaskStartAt/TaskEndAt/OptionalTaskForceSchedule "
        "and solved by the real solver); steer (minimise/maximise start, end, duration with both optimisers); "
        "mixture (2-4 tasks + random resources/constraints/buffers, sampled pinned candidates and free solves "
        "under several configurations). An execution is non-trivial when the solver returned a schedule on "
        "which a C01 clause was evaluated T/F, or refused a candidate that breaks a C01 clause; distinct = "
        "distinct (spec, pinned candidate | plan, config).")
ASSUMPTIONS = ["z3 answers sat/unsat definitively on these micro instances (unknown = inconclusive)",
               "refsem C01 clauses follow the property statement; variable-duration max is shifted by "
               "interruption overlap (band)"]
EXHAUSTIVE = {"quick": False, "thorough": False}


def single_specs():
    out = []
    types = [
        {"type": "Fixed", "duration": 2},
        {"type": "Zero"},
        {"type": "Variable", "min_duration": 1, "max_duration": 3},
        {"type": "Variable", "allowed_durations": [1, 3], "max_duration": 3},
        {"type": "Variable", "min_duration": 2},
        {"type": "Variable"},
        # listed durations below the minimum and above the maximum: every restriction applies at once
        {"type": "Variable", "min_duration": 2, "max_duration": 3, "allowed_durations": [1, 2, 4]},
    ]
    for ty, opt, H in itertools.product(types, (False, True), (4, 7)):
        d = ty.get("duration", ty.get("min_duration", 1) or 1)
        for rel in (None, 0, 1, H - d, H - d + 1, -2):      # (a job released before the origin still starts at >= 0)
            for due, dl in ((None, None), (d - 1, True), (d, True), (H, True), (d, False), (H + 1, True)):
                t = dict(ty, name="t0")
                if opt:
                    t["optional"] = True
                if rel is not None:
                    t["release_date"] = rel
                if due is not None:
                    t["due_date"] = due
                    t["due_date_is_deadline"] = dl
                out.append({"problem": {"name": "P", "horizon": H}, "tasks": [t]})
    return out


def steer_specs():
    out = []
    types = [
        {"type": "Fixed", "duration": 2},
        {"type": "Zero"},
        {"type": "Variable", "min_duration": 1, "max_duration": 3},
        {"type": "Variable", "allowed_durations": [2, 3]},
        {"type": "Variable", "min_duration": 2, "max_duration": 3, "allowed_durations": [1, 3, 5]},
    ]
    for ty, opt, H in itertools.product(types, (False, True), (None, 6)):
        for q, direction in (("start", "min"), ("end", "max"), ("duration", "min"), ("duration", "max"),
                             ("end", "min"), ("start", "max")):
            if H is None and direction == "max" and q != "duration":
                continue
            if H is None and q == "duration" and direction == "max" and "max_duration" not in ty and \
                    "allowed_durations" not in ty:
                continue
            t = dict(ty, name="t0")
            if opt:
                t["optional"] = True
            if q == "start" and direction == "min":
                t["release_date"] = -3          # pulled early: the origin, not the release date, is the bound
            t2 = {"name": "t1", "type": "Fixed", "duration": 1}
            spec = {"problem": {"name": "P"}, "tasks": [t, t2], "constraints": [], "indicators": [
                {"id": "q", "kind": "FromExpr", "name": "q", "expr": [q, "t0"]}],
                "objectives": [{"kind": "MinimizeIndicator" if direction == "min" else "MaximizeIndicator",
                                "indicator": "q", "weight": 1}]}
            if H is not None:
                spec["problem"]["horizon"] = H
            if opt:
                spec["constraints"].append({"id": "f", "kind": "OptionalTaskForceSchedule", "task": "t0",
                                            "value": True})
            for optimizer in ("incremental", "optimize"):
                out.append((spec, {"solver": {"optimizer": optimizer, "max_time": 20}}))
    return out


def generate(tier, seed):
    rng = random.Random(seed * 7919 + 1)
    cases = []
    singles = single_specs()
    if tier == "quick":
        core = singles[::7]
        extra = rng.sample(singles, 60)
        singles = core + extra
    for i, spec in enumerate(singles):
        cases.append({"cid": f"single-{i}", "family": "single", "kind": "grid", "spec": spec, "wide": True})
    for i, (spec, plan) in enumerate(steer_specs()):
        cases.append({"cid": f"steer-{i}", "family": "steer", "kind": "solve", "spec": spec, "plan": plan,
                      "user_horizon": True})
    nmix = 60 if tier == "quick" else 600
    for i in range(nmix):
        r = random.Random(f"{seed}-mix-{i}")
        spec = gen.random_spec(r, n_tasks=r.randint(2, 4 if tier != "quick" else 3),
                               profile={"dates": 0.6, "optional": 0.35})
        cases.append({"cid": f"mix-grid-{i}", "family": "mixture", "kind": "grid", "spec": spec, "wide": True,
                      "limit": 40 if tier == "quick" else 120, "rng": i, "skip_foreign_invalid": True})
        for j, cfg in enumerate(({}, {"random_values": True}, {"random_values": True})):
            cases.append({"cid": f"mix-free-{i}-{j}", "family": "mixture-free", "kind": "solve", "spec": spec,
                          "plan": {"solver": cfg, "py_seed": seed + i}})
    if tier != "quick":
        # L7: the repository's own tests under the universal monitors
        cases.append({"cid": "suite-replay", "family": "suite", "kind": "suite", "jobs": 8})
    return cases


def run_case(case):
    return common.run_generic(case, PREFIXES)


def floors(tier):
    return {"distinct_nontrivial": 500, "C01.start_nonneg:T@sat": 100, "C01.release:T@sat": 20,
            "C01.deadline:T@sat": 20, "C01.start_nonneg:refused": 50, "C01.end_le_horizon:refused": 50,
            "C01.release:refused": 10, "C01.deadline:refused": 10}


def shards(tier):
    return 64
