"""C10 — logical combinations and optional constraints mean what their connective says."""
import copy
import itertools
import random

from . import common
from .. import cands as cd
from .. import families as fam
from .. import probe as pr
from .. import refsem as rs

PROPERTY = "C10"
PREFIXES = ("C10.",)
RULE = ("truth-table differential over fresh solver instances: for operands A, B (built-in task constraints without "
        "auxiliary unknowns, raw expressions, nested formulas to depth 3), a 2-3-task base problem P and every candidate c "
        "of the placement grid, admit(P + F(A,B), c) must equal F(admit(P + A, c), admit(P + B, c)) for F in "
        "{Not, And, Or, Xor, Implies(cond,.), IfThenElse(cond,.,.)}; every execution is one solve of the real library. "
        "Optional constraints: every subset of applied flags is pinned together with c; sat iff the force-apply count "
        "admits the subset and every applied operand holds on c. An operand declared optional inside a connective: applied flag "
        "pinned or forced, same truth table (unapplied+false operand is band). ConstraintFromExpression: admit vs the mini-AST value. "
        "Every returned schedule is also judged by the refsem C10 clauses. distinct = (formula, candidate); the evidence "
        "counts the operand valuation patterns TT/TF/FT/FF reached.")
ASSUMPTIONS = ["operands with auxiliary unknowns under negation are judged only in the thorough tier and only through refsem"]
EXHAUSTIVE = {"quick": False, "thorough": False}

H = 4


def base_spec(opt=False):
    # both tasks on one worker: resource constraints can be operands too
    return fam.base(H, [fam.fx("t0", 1), fam.vr("t1", 1, 2, **({"optional": True} if opt else {}))],
                    workers=[{"name": "w0"}],
                    requirements=[{"task": "t0", "resource": "w0"}, {"task": "t1", "resource": "w0"}])


def leaf_pool(opt=False):
    return [
        {"kind": "TaskStartAt", "task": "t0", "value": 1},
        {"kind": "TaskEndBefore", "task": "t1", "value": 3, "mode": "strict"},
        {"kind": "TaskStartAfter", "task": "t1", "value": 1, "mode": "lax"},
        {"kind": "TaskPrecedence", "before": "t0", "after": "t1", "offset": 0, "mode": "lax"},
        {"kind": "TaskPrecedence", "before": "t1", "after": "t0", "offset": 1, "mode": "strict"},
        {"kind": "TasksStartSynced", "t1": "t0", "t2": "t1"},
        {"kind": "TasksEndSynced", "t1": "t0", "t2": "t1"},
        {"kind": "TasksDontOverlap", "t1": "t0", "t2": "t1"},
        {"kind": "expr", "expr": ["<", ["start", "t0"], 2]},
        {"kind": "expr", "expr": ["==", ["+", ["start", "t0"], 1], ["end", "t0"]]},
        # several assertions, no auxiliary unknowns
        {"kind": "ResourceUnavailable", "resource": "w0", "intervals": [[0, 1], [3, 4]]},
    ] + ([] if opt else [
        {"kind": "expr", "expr": [">=", ["end", "t1"], 3]},
        {"kind": "expr", "expr": ["!=", ["start", "t0"], ["start", "t1"]]},
    ])


CONDS = [[">", ["start", "t0"], 1], ["<=", ["end", "t0"], 2], True]


def with_ids(node, counter):
    n = copy.deepcopy(node)
    if n.get("kind") not in ("expr", "ref"):
        counter[0] += 1
        n["id"] = f"n{counter[0]}"
        for key in ("arg", "a", "b"):
            if key in n:
                n[key] = with_ids(n[key], counter)
        for key in ("args", "then", "else"):
            if key in n:
                n[key] = [with_ids(x, counter) for x in n[key]]
    return n


def random_formula(r, depth, opt=False):
    if depth == 0 or r.random() < 0.25:
        return copy.deepcopy(r.choice(leaf_pool(opt)))
    k = r.choice(["Not", "And", "Or", "Xor", "Implies", "IfThenElse"])
    sub = lambda: random_formula(r, depth - 1, opt)  # noqa
    if k == "Not":
        return {"kind": "Not", "arg": sub()}
    if k in ("And", "Or"):
        return {"kind": k, "args": [sub() for _ in range(r.randint(2, 3))]}
    if k == "Xor":
        return {"kind": "Xor", "a": sub(), "b": sub()}
    if k == "Implies":
        return {"kind": "Implies", "cond": copy.deepcopy(r.choice(CONDS[:2])), "args": [sub() for _ in range(r.randint(1, 2))]}
    return {"kind": "IfThenElse", "cond": copy.deepcopy(r.choice(CONDS[:2])), "then": [sub()], "else": [sub()]}


def as_top(node):
    """a leaf used as a stand-alone constraint"""
    if node.get("kind") == "expr":
        return {"kind": "FromExpression", "expr": node["expr"]}
    return node


def admit(spec, extra, cand):
    s = copy.deepcopy(spec)
    if extra is not None:
        s["constraints"] = s["constraints"] + [with_ids(extra, [0])]
    res = pr.run_solve(s, {"pins": pr.candidate_pins(s, cand)})
    return res


class TT:
    """evaluates a formula tree from the solver's own verdicts on its leaves"""

    def __init__(self, acc, spec, cand):
        self.acc, self.spec, self.cand = acc, spec, cand
        self.cache = {}

    def leaf(self, node):
        key = common.h(node)
        if key not in self.cache:
            res = admit(self.spec, as_top(node), self.cand)
            self.acc.executions += 1
            self.cache[key] = {"sat": True, "unsat": False}.get(res["outcome"])
        return self.cache[key]

    def cond(self, e):
        if e is True or e is False:
            return e
        return self.leaf({"kind": "expr", "expr": e})

    def value(self, n):
        k = n["kind"]
        if k not in rs.LOGIC:
            return self.leaf(n)
        if k == "Not":
            v = self.value(n["arg"])
            return None if v is None else not v
        if k in ("And", "Or"):
            vs = [self.value(a) for a in n["args"]]
            if None in vs:
                return None
            return all(vs) if k == "And" else any(vs)
        if k == "Xor":
            a, b = self.value(n["a"]), self.value(n["b"])
            return None if None in (a, b) else (a != b)
        if k == "Implies":
            c = self.cond(n["cond"])
            vs = [self.value(a) for a in n["args"]]
            if c is None or None in vs:
                return None
            return (not c) or all(vs)
        c = self.cond(n["cond"])
        vt = [self.value(a) for a in n["then"]]
        ve = [self.value(a) for a in n["else"]]
        if c is None or None in vt or None in ve:
            return None
        return all(vt) if c else all(ve)


def run_tt(case):
    acc = common.Acc(PREFIXES)
    spec, formula = case["spec"], case["formula"]
    rng = random.Random(case.get("rng", 0))
    cs = [c for c in cd.enumerate_candidates(spec, wide=False, limit=5000, rng=rng)
          if cd.classify(spec, c)[0] == "valid"]
    if len(cs) > case["limit"]:
        cs = rng.sample(cs, case["limit"])
    top = formula["kind"]
    for c in cs:
        tt = TT(acc, spec, c)
        want = tt.value(formula)
        res = admit(spec, formula, c)
        acc.executions += 1
        got = {"sat": True, "unsat": False}.get(res["outcome"])
        acc.count(acc.outcomes, f"{res['outcome']}")
        if want is None or got is None:
            if res["outcome"] in ("build_error", "exception"):
                acc.violation("C10.exception", "exception", {"connective": top, "exc": res["exc"].get("type")},
                              {"exc": res["exc"], "formula": formula})
            else:
                acc.inconclusive.append(f"unknown leaf or formula ({res['outcome']})")
            continue
        acc.sigs.add(common.h([formula, cd.cand_key(c), common.h(spec)]))
        # valuation pattern of the (first two) direct operands, for coverage
        ops = rs.operands(formula)
        pat = "".join("T" if tt.value(o) else "F" for o in ops[:2] if tt.value(o) is not None)
        acc.count(acc.clauses, f"C10.tt.{top}.{pat}:{'T' if got == want else 'F'}")
        if got != want:
            acc.violation(f"C10.tt.{top}", "laxer" if got else "stricter",
                          {"connective": top, "operand_pattern": pat, "depth": case.get("depth", 1)},
                          {"formula": formula, "cand": c, "library": got, "truth_table": want})
        elif got and res["sched"]:
            common.judge_observed(acc, dict(spec, constraints=spec["constraints"] + [with_ids(formula, [0])]), res,
                                  tag="tt", pinned=c)
        if acc.sample is None:
            acc.sample = {"formula": formula, "candidate": c, "library_admits": got, "truth_table": want,
                          "leaf_verdicts": len(tt.cache)}
    if not cs:
        acc.empty_ok = True
    return acc.result()


def run_shared(case):
    """one constraint OBJECT used as operand of two combinations: each combination means what its own truth table says"""
    acc = common.Acc(PREFIXES)
    spec = case["spec"]
    rng = random.Random(case.get("rng", 0))
    cs = [c for c in cd.enumerate_candidates(spec, wide=False, limit=5000, rng=rng)
          if cd.classify(spec, c)[0] == "valid"]
    if len(cs) > case["limit"]:
        cs = rng.sample(cs, case["limit"])
    s2 = copy.deepcopy(spec)
    s2["constraints"] = s2["constraints"] + [copy.deepcopy(case["f1"]), copy.deepcopy(case["f2"])]
    for c in cs:
        tt = TT(acc, spec, c)
        v1, v2 = tt.value(case["f1_plain"]), tt.value(case["f2_plain"])
        res = pr.run_solve(s2, {"pins": pr.candidate_pins(s2, c)})
        acc.executions += 1
        got = {"sat": True, "unsat": False}.get(res["outcome"])
        if v1 is None or v2 is None or got is None:
            if res["outcome"] in ("build_error", "exception"):
                acc.violation("C10.exception", "exception", {"connective": "shared", "exc": res["exc"].get("type")},
                              {"exc": res["exc"], "f1": case["f1"], "f2": case["f2"]})
            else:
                acc.inconclusive.append(f"unknown leaf or formula ({res['outcome']})")
            continue
        want = v1 and v2
        acc.sigs.add(common.h([case["f1"], case["f2"], cd.cand_key(c)]))
        acc.count(acc.clauses, f"C10.shared_operand.{'T' if v1 else 'F'}{'T' if v2 else 'F'}:{'T' if got == want else 'F'}")
        if got != want:
            acc.violation("C10.shared_operand", "laxer" if got else "stricter",
                          {"first": case["f1"]["kind"], "second": case["f2"]["kind"]},
                          {"f1": case["f1"], "f2": case["f2"], "cand": c, "library": got, "truth_tables": [v1, v2]})
        if acc.sample is None:
            acc.sample = {"f1": case["f1"], "f2": case["f2"], "candidate": c, "library_admits": got, "truth_tables": [v1, v2]}
    if not cs:
        acc.empty_ok = True
    return acc.result()


def run_optional(case):
    """optional constraints + force-apply-N: pin the applied flags"""
    acc = common.Acc(PREFIXES)
    spec = case["spec"]
    rng = random.Random(case.get("rng", 0))
    opts = [c for c in spec["constraints"] if c.get("optional")]
    force = [c for c in spec["constraints"] if c["kind"] == "ForceApplyNOptionalConstraints"]
    base = dict(spec, constraints=[c for c in spec["constraints"] if not c.get("optional")
                                   and c["kind"] != "ForceApplyNOptionalConstraints"])
    cs = [c for c in cd.enumerate_candidates(base, wide=False, limit=5000, rng=rng)
          if cd.classify(base, c)[0] == "valid"]
    if len(cs) > case["limit"]:
        cs = rng.sample(cs, case["limit"])
    for c in cs:
        tt = TT(acc, base, c)
        hold = {o["id"]: tt.value({k: v for k, v in o.items() if k not in ("optional", "id")}) for o in opts}
        for flags in itertools.product((False, True), repeat=len(opts)):
            applied = {o["id"]: f for o, f in zip(opts, flags)}
            pins = pr.candidate_pins(spec, c) + [
                {"pin": "expr", "expr": ["applied", i] if f else ["not", ["applied", i]]} for i, f in applied.items()]
            res = pr.run_solve(spec, {"pins": pins})
            acc.executions += 1
            got = {"sat": True, "unsat": False}.get(res["outcome"])
            if got is None or None in hold.values():
                if res["outcome"] in ("build_error", "exception"):
                    acc.violation("C10.optional.exception", "exception", {"exc": res["exc"].get("type")},
                                  {"exc": res["exc"]})
                else:
                    acc.inconclusive.append(res["outcome"])
                continue
            want = all(hold[i] for i, f in applied.items() if f)
            for fc in force:
                cnt = sum(1 for i in fc["constraints"] if applied[i])
                m, nn = fc.get("mode") or "exact", fc.get("n") or 1
                want = want and {"exact": cnt == nn, "min": cnt >= nn, "max": cnt <= nn}[m]
            acc.sigs.add(common.h([common.h(spec), cd.cand_key(c), flags]))
            mode = (force[0].get("mode") or "exact") if force else "none"
            acc.count(acc.clauses, f"C10.optional.flags.{mode}:{'T' if got == want else 'F'}")
            if got != want:
                acc.violation("C10.optional.flags", "laxer" if got else "stricter",
                              {"force_mode": mode, "n_optional": len(opts)},
                              {"cand": c, "applied": applied, "operand_holds": hold, "library": got, "expected": want})
            elif got:
                common.judge_observed(acc, spec, res, tag="opt", pinned=c)
        if acc.sample is None:
            acc.sample = {"spec_constraints": spec["constraints"], "candidate": c, "operand_holds": hold}
    if not cs:
        acc.empty_ok = True
    return acc.result()


def _strip_optional(n):
    if isinstance(n, list):
        return [_strip_optional(x) for x in n]
    if isinstance(n, dict):
        return {k: _strip_optional(v) for k, v in n.items() if k not in ("optional", "id")}
    return n


def run_optional_operand(case):
    """a connective (not itself optional) one of whose operands is a constraint declared optional=True: with the
    operand's applied flag true (pinned, or forced by ForceApplyNOptionalConstraints) the combination constrains the
    schedule by the boolean combination of the operands' meanings and the operand is not enforced on its own.  With
    the flag false the statement is silent on whether the operand counts as M or as (applied -> M): judged only where
    both readings agree (M holds)."""
    acc = common.Acc(PREFIXES)
    spec, f = case["spec"], case["formula"]
    rng = random.Random(case.get("rng", 0))
    cs = [c for c in cd.enumerate_candidates(spec, wide=False, limit=5000, rng=rng)
          if cd.classify(spec, c)[0] == "valid"]
    if len(cs) > case["limit"]:
        cs = rng.sample(cs, case["limit"])
    plain_f = _strip_optional(f)
    leaf = _strip_optional(case["operand"])
    for c in cs:
        tt = TT(acc, spec, c)
        want, M = tt.value(plain_f), tt.value(leaf)
        if want is None or M is None:
            acc.inconclusive.append("leaf-unknown")
            continue
        runs = [("pinned-applied", [f], [["applied", "o0"]], want), ("pinned-unapplied", [f], [["not", ["applied", "o0"]]], want if M else None),
                ("forced", [f, {"id": "fa", "kind": "ForceApplyNOptionalConstraints", "constraints": ["o0"], "n": 1,
                                "mode": case.get("mode", "exact")}], [], want)]
        for tag, cons, exprs, expected in runs:
            s2 = dict(spec, constraints=spec["constraints"] + copy.deepcopy(cons))
            pins = pr.candidate_pins(s2, c) + [{"pin": "expr", "expr": e} for e in exprs]
            res = pr.run_solve(s2, {"pins": pins})
            acc.executions += 1
            got = {"sat": True, "unsat": False}.get(res["outcome"])
            if got is None:
                if res["outcome"] in ("build_error", "exception"):
                    acc.violation("C10.optional_operand.exception", "exception", {"exc": res["exc"].get("type"), "top": f["kind"]},
                                  {"exc": res["exc"]})
                else:
                    acc.inconclusive.append(res["outcome"])
                continue
            if expected is None:
                acc.count(acc.clauses, "C10.optional_operand.unapplied_false_operand:B")
                continue
            acc.sigs.add(common.h([common.h(f), cd.cand_key(c), tag]))
            acc.count(acc.clauses, f"C10.optional_operand.{tag}:{'T' if got == expected else 'F'}")
            if got != expected:
                acc.violation("C10.optional_operand", "laxer" if got else "stricter", {"top": f["kind"], "how": tag},
                              {"cand": c, "formula": f, "operand_holds": M, "library": got, "expected": expected})
        if acc.sample is None:
            acc.sample = {"formula": f, "candidate": c, "operand_holds": M, "combination_holds": want}
    if not cs:
        acc.empty_ok = True
    return acc.result()


def run_expr(case):
    """ConstraintFromExpression: admit vs the value of the mini-AST"""
    acc = common.Acc(PREFIXES)
    spec, e = case["spec"], case["expr"]
    rng = random.Random(case.get("rng", 0))
    s2 = dict(spec, constraints=spec["constraints"] + [{"id": "x", "kind": "FromExpression", "expr": e}])
    for c in cd.enumerate_candidates(spec, wide=False, limit=400, rng=rng):
        if cd.classify(spec, c)[0] != "valid":
            continue
        P = rs.plain_from_candidate(spec, c)
        try:
            want = bool(rs.ev(e, spec, P))
        except rs.Band:
            continue
        res = pr.run_solve(s2, {"pins": pr.candidate_pins(s2, c)})
        acc.executions += 1
        got = {"sat": True, "unsat": False}.get(res["outcome"])
        if got is None:
            acc.inconclusive.append(res["outcome"])
            continue
        acc.sigs.add(common.h([e, cd.cand_key(c)]))
        acc.count(acc.clauses, f"C10.FromExpression.value:{'T' if got == want else 'F'}")
        if got != want:
            acc.violation("C10.FromExpression", "laxer" if got else "stricter", {}, {"expr": e, "cand": c})
        if acc.sample is None:
            acc.sample = {"expr": e, "candidate": c, "mini_ast_value": want, "library_admits": got}
    return acc.result()


def generate(tier, seed):
    cases = []
    lim = 12 if tier == "quick" else 200
    for opt in (False, True):
        spec = base_spec(opt)
        pool = leaf_pool(opt)
        otag = "opt" if opt else "mand"
        r = random.Random(f"{seed}-c10-{opt}")
        pairs = list(itertools.permutations(range(len(pool)), 2))
        if tier == "quick":
            pairs = r.sample(pairs, 14 if not opt else 8)
        for ia, ib in pairs:
            A, B = pool[ia], pool[ib]
            forms = [{"kind": "And", "args": [A, B]}, {"kind": "Or", "args": [A, B]}, {"kind": "Xor", "a": A, "b": B},
                     {"kind": "Implies", "cond": CONDS[(ia + ib) % 3], "args": [A, B] if (ia + ib) % 2 else [A]},
                     {"kind": "IfThenElse", "cond": CONDS[(ia + ib) % 2], "then": [A], "else": [B]},
                     {"kind": "IfThenElse", "cond": CONDS[(ia + ib + 1) % 2], "then": [A, B], "else": [B, pool[(ia + 1) % len(pool)]]}]
            Cx = pool[(ia + 2) % len(pool)]
            forms += [{"kind": "Or", "args": [A, {"kind": "Or", "args": [B, Cx]}]},
                      {"kind": "And", "args": [{"kind": "And", "args": [A, B]}, Cx]},
                      {"kind": "Or", "args": [A, {"kind": "Not", "arg": B}, Cx]},
                      {"kind": "Not", "arg": {"kind": "Not", "arg": A}},
                      {"kind": "Or", "args": [A, {"kind": "Implies", "cond": CONDS[ia % 2], "args": [B]}]}]
            for fi2, f in enumerate(forms):
                if fi2 >= 6 and tier == "quick" and (ia + ib + fi2) % 3:
                    continue
                cases.append({"cid": f"tt-{otag}-{f['kind']}-{ia}-{ib}-{fi2}", "family": f"truthtable:{f['kind']}",
                              "kind": "tt", "spec": spec, "formula": copy.deepcopy(f), "limit": lim, "rng": seed})
        for ia, A in enumerate(pool):
            cases.append({"cid": f"tt-{otag}-Not-{ia}", "family": "truthtable:Not", "kind": "tt", "spec": spec,
                          "formula": {"kind": "Not", "arg": copy.deepcopy(A)}, "limit": lim * 2, "rng": seed})
        nrand = 40 if tier == "quick" else 400
        for i in range(nrand if not opt else nrand // 3):
            rr = random.Random(f"{seed}-c10-f-{opt}-{i}")
            depth = rr.choice([2, 2, 3])
            f = random_formula(rr, depth, opt)
            if f["kind"] not in rs.LOGIC:
                continue
            cases.append({"cid": f"nested-{otag}-{i}", "family": f"nested:depth{depth}", "kind": "tt", "spec": spec,
                          "formula": f, "limit": 8 if tier == "quick" else 60, "rng": seed + i, "depth": depth})
    # optional constraints and force-apply-N
    spec = base_spec(False)
    opt_pool = [dict(x, optional=True) for x in leaf_pool(False) if x["kind"] != "expr"][:6]
    for nopt in (1, 2, 3):
        for mode, n in ((None, None), ("exact", 1), ("min", 1), ("max", 1), ("exact", 2), ("min", 2), ("max", 2), ("exact", 3), ("max", 3), ("min", 3)):
            if n is not None and n > nopt:
                continue
            r = random.Random(f"{seed}-{nopt}-{mode}-{n}")
            chosen = [dict(copy.deepcopy(o), id=f"o{i}") for i, o in enumerate(r.sample(opt_pool, nopt))]
            cons = list(chosen)
            if mode is not None:
                cons.append({"id": "fa", "kind": "ForceApplyNOptionalConstraints", "constraints": [o["id"] for o in chosen],
                             "n": n, "mode": mode})
            cases.append({"cid": f"optional-{nopt}-{mode}-{n}", "family": "optional", "kind": "optional",
                          "spec": dict(spec, constraints=cons), "limit": 10 if tier == "quick" else 100, "rng": seed})
    # first-order-logic constraints that are themselves optional (alone, and next to a plain optional constraint under a
    # force-apply rule): leaving one unapplied must switch off every branch of it
    plain = [x for x in leaf_pool(False) if x["kind"] != "expr"]
    for fi, (ia, ib) in enumerate(((0, 1), (1, 2), (2, 0), (3, 1))):
        A, B = plain[ia % len(plain)], plain[ib % len(plain)]
        forms = [{"kind": "Not", "arg": A}, {"kind": "And", "args": [A, B]}, {"kind": "Or", "args": [A, B]},
                 {"kind": "Xor", "a": A, "b": B}, {"kind": "Implies", "cond": CONDS[fi % 2], "args": [A, B]},
                 {"kind": "IfThenElse", "cond": CONDS[(fi + 1) % 2], "then": [A], "else": [B]}]
        for f in forms:
            if tier == "quick" and fi > 1 and f["kind"] not in ("IfThenElse", "Implies"):
                continue
            fo = with_ids(copy.deepcopy(f), [100])
            fo.update(id="o0", optional=True)
            cases.append({"cid": f"optional-fol-{f['kind']}-{fi}", "family": "optional-fol", "kind": "optional",
                          "spec": dict(spec, constraints=[fo]), "limit": 8 if tier == "quick" else 100, "rng": seed + fi})
            other = dict(copy.deepcopy(plain[(ia + 2) % len(plain)]), id="o1", optional=True)
            mode, n = (("max", 1), ("min", 1), ("exact", 1), ("max", 2))[fi]
            cases.append({"cid": f"optional-fol-force-{f['kind']}-{fi}", "family": "optional-fol", "kind": "optional",
                          "spec": dict(spec, constraints=[copy.deepcopy(fo), other, {
                              "id": "fa", "kind": "ForceApplyNOptionalConstraints", "constraints": ["o0", "o1"], "n": n,
                              "mode": mode}]), "limit": 5 if tier == "quick" else 60, "rng": seed + fi})
    # an operand declared optional=True inside a connective that is not optional itself
    plain = [x for x in leaf_pool(False) if x["kind"] != "expr"]
    for fi in range(3 if tier == "quick" else len(plain)):
        A, B = copy.deepcopy(plain[fi % len(plain)]), copy.deepcopy(plain[(fi + 1) % len(plain)])
        Ao = dict(copy.deepcopy(A), id="o0", optional=True)
        forms = [{"kind": "Not", "arg": Ao}, {"kind": "Or", "args": [Ao, B]}, {"kind": "Or", "args": [B, Ao]},
                 {"kind": "And", "args": [Ao, B]}, {"kind": "Xor", "a": Ao, "b": B},
                 {"kind": "Implies", "cond": CONDS[fi % 2], "args": [Ao]},
                 {"kind": "IfThenElse", "cond": CONDS[(fi + 1) % 2], "then": [Ao], "else": [B]},
                 {"kind": "IfThenElse", "cond": CONDS[fi % 2], "then": [B], "else": [Ao]}]
        for gi, f in enumerate(forms):
            f = dict(f, id=f"top{gi}")
            cases.append({"cid": f"optional-operand-{f['kind']}-{fi}-{gi}", "family": "optional-operand",
                          "kind": "optional_operand", "spec": base_spec(False), "formula": f, "operand": Ao,
                          "mode": ("exact", "min")[gi % 2], "limit": 6 if tier == "quick" else 60, "rng": seed + fi})
    # shared operands: the same constraint object under two combinations
    spec = base_spec(False)
    plain = [x for x in leaf_pool(False) if x["kind"] != "expr"]
    for si in range(4 if tier == "quick" else 12):
        A, B, C = (copy.deepcopy(plain[(si + k) % len(plain)]) for k in (0, 1, 2))
        c1, c2 = CONDS[si % 2], CONDS[(si + 1) % 2]
        firsts = [{"kind": "Implies", "cond": c1, "args": [A, B]}, {"kind": "And", "args": [A, B]},
                  {"kind": "IfThenElse", "cond": c1, "then": [A, B], "else": [C]}]
        for fi, f1_plain in enumerate(firsts):
            f1 = with_ids(copy.deepcopy(f1_plain), [0])
            a_id = (f1.get("args") or f1.get("then"))[0]["id"]
            ref = {"kind": "ref", "id": a_id}
            seconds = [({"kind": "Implies", "cond": c2, "args": [ref, C]}, {"kind": "Implies", "cond": c2, "args": [A, C]}),
                       ({"kind": "Or", "args": [{"kind": "Not", "arg": ref}, C]},
                        {"kind": "Or", "args": [{"kind": "Not", "arg": A}, C]}),
                       ({"kind": "Xor", "a": ref, "b": C}, {"kind": "Xor", "a": A, "b": C})]
            for gi, (f2, f2_plain) in enumerate(seconds):
                if tier == "quick" and (si + fi + gi) % 2:
                    continue
                cases.append({"cid": f"shared-{si}-{fi}-{gi}", "family": "shared-operand", "kind": "shared", "spec": spec,
                              "f1": f1, "f1_plain": f1_plain, "f2": with_ids(copy.deepcopy(f2), [50]),
                              "f2_plain": f2_plain, "limit": 10 if tier == "quick" else 80, "rng": seed + si})
    # expressions
    exprs = [["<", ["+", ["start", "t0"], ["duration", "t1"]], 3], ["==", ["*", ["start", "t1"], 2], ["end", "t1"]],
             ["or", ["<", ["end", "t0"], ["start", "t1"]], [">", ["start", "t0"], ["end", "t1"]]],
             ["not", ["==", ["start", "t0"], ["start", "t1"]]], [">=", ["ite", ["<", ["start", "t0"], 2], 5, 1], ["end", "t1"]]]
    for i, e in enumerate(exprs):
        cases.append({"cid": f"expr-{i}", "family": "expression", "kind": "expr", "spec": spec, "expr": e, "rng": seed})
    # refsem-judged grids with logic constraints embedded (and auxiliaries in the thorough tier)
    ngr = 30 if tier == "quick" else 300
    aux = [{"kind": "TasksContiguous", "tasks": ["t0", "t1"]},
           {"kind": "ScheduleNTasksInTimeIntervals", "tasks": ["t0", "t1"], "n": 1, "intervals": [[0, 2]], "mode": "exact"},
           {"kind": "UnorderedTaskGroup", "tasks": ["t0", "t1"], "interval": [1, 4]}]
    for i in range(ngr):
        rr = random.Random(f"{seed}-c10-g-{i}")
        f = random_formula(rr, 2, False)
        if f["kind"] not in rs.LOGIC:
            continue
        if i % 3 == 0:
            f = {"kind": rr.choice(["Or", "And"]), "args": [f, copy.deepcopy(rr.choice(aux))]}
        elif i % 3 == 1 and i % 2 == 0:
            # negative polarity over an operand with auxiliary unknowns
            f = rr.choice([{"kind": "Not", "arg": copy.deepcopy(rr.choice(aux))},
                           {"kind": "Xor", "a": copy.deepcopy(rr.choice(aux)), "b": copy.deepcopy(rr.choice(leaf_pool()))}])
        s2 = dict(base_spec(False), constraints=[with_ids(f, [0])])
        cases.append({"cid": f"grid-{i}", "family": "refsem-grid", "kind": "grid", "spec": s2, "wide": False,
                      "limit": 30 if tier == "quick" else 200, "rng": seed + i})
    return cases


def run_case(case):
    k = case["kind"]
    if k == "tt":
        return run_tt(case)
    if k == "optional":
        return run_optional(case)
    if k == "optional_operand":
        return run_optional_operand(case)
    if k == "expr":
        return run_expr(case)
    if k == "shared":
        return run_shared(case)
    return common.run_generic(case, PREFIXES)


def floors(tier):
    return {"distinct_nontrivial": 1500}


def shards(tier):
    return 64
