"""C06 — optional tasks: scheduled like mandatory ones, or inert when not scheduled."""
import copy
import json
import random

from . import common, c05
from .. import cands as cd
from .. import families, gen
from .. import probe as pr
from .. import refsem as rs

PROPERTY = "C06"
PREFIXES = ("C06.",)
RULE = ("(a) differential, no reference semantics: for an optional task O and every candidate c of the other tasks on "
        "the grid, admit(P + O forced unscheduled, c) must equal admit(P with O and everything naming O deleted, c); and "
        "for every candidate including O, admit(P + O forced scheduled, c) must equal admit(P with O mandatory, c) - "
        "each admit() is one execution of a fresh solver; (b) every returned schedule is judged by the inertness clauses "
        "(no assignment, no buffer move, no indicator/objective contribution); (c) force/condition/dependency/count rules "
        "are compared with the reported scheduled flags on the whole grid. distinct = distinct (spec, candidate, side).")
ASSUMPTIONS = ["OptionalTasksDependency: weak reading (implication) decides, equivalence is band",
               "constraints naming O nested inside first-order-logic nodes are not used in the differential family"]
EXHAUSTIVE = {"quick": False, "thorough": False}


def names_task(c, tn):
    return tn in rs.tasks_named(c)


def remove_task(spec, tn):
    s = copy.deepcopy(spec)
    s["tasks"] = [t for t in s["tasks"] if t["name"] != tn]
    s["requirements"] = [r for r in s.get("requirements", []) if r["task"] != tn]
    out = []
    for c in s.get("constraints", []):
        # rules about the scheduling of tn itself: with tn left unscheduled they either contradict the pin or
        # constrain other tasks' flags - the problem "with tn deleted" is not defined by deletion alone
        if c["kind"] in ("OptionalTaskForceSchedule", "OptionalTaskConditionSchedule") and c.get("task") == tn:
            return None
        if c["kind"] == "OptionalTasksDependency" and tn in (c.get("t1"), c.get("t2")):
            return None      # implication (docs) or equivalence (docstring): band
        if c["kind"] == "ForceScheduleNOptionalTasks" and tn in c.get("tasks", []):
            rest = [x for x in c["tasks"] if x != tn]
            if not rest:
                return None
            out.append(dict(c, tasks=rest))      # an unscheduled task does not count
            continue
        if c["kind"] in ("TasksContiguous", "UnorderedTaskGroup", "OrderedTaskGroup", "ScheduleNTasksInTimeIntervals",
                         "ForceScheduleNOptionalTasks") and tn in c.get("tasks", []):
            c = dict(c, tasks=[x for x in c["tasks"] if x != tn])
            if not c["tasks"]:
                if c["kind"] == "ScheduleNTasksInTimeIntervals":
                    m, nn = c.get("mode") or "exact", c["n"]
                    if not {"exact": nn == 0, "min": nn <= 0, "max": True}[m]:
                        return None      # "n of no task" cannot be declared: nothing to compare with
                continue
            out.append(c)
        elif names_task(c, tn) or tn in json.dumps(c.get("cond", "")) or tn in json.dumps(c.get("expr", "")):
            continue
        else:
            out.append(c)
    s["constraints"] = out
    # resource constraints on resources nobody uses any more cannot be built
    used = {r["resource"] for r in s["requirements"]}
    for sel in s.get("selections", []):
        if sel["id"] in used:
            used.update(sel["workers"])
    for c in s["constraints"]:
        if "resource" in c and c["resource"] not in used and c["kind"] == "WorkLoad" \
                and (c.get("mode") or "max") in ("min", "exact") and any(b > 0 for _lo, _hi, b in c["map"]):
            # a positive workload demanded from a resource that no remaining task uses: the problem without
            # the task cannot even be declared (unassigned resource) - nothing to compare with
            return None
    s["constraints"] = [c for c in s["constraints"] if "resource" not in c or c["resource"] in used]
    return s


def make_mandatory(spec, tn):
    """the same problem with tn declared mandatory; None when a scheduling rule about tn cannot be carried over"""
    s = copy.deepcopy(spec)
    for t in s["tasks"]:
        if t["name"] == tn:
            t.pop("optional", None)
    out = []
    for c in s["constraints"]:
        k = c["kind"]
        if k == "OptionalTaskForceSchedule" and c.get("task") == tn:
            if c.get("value") is True:
                continue          # trivially true for a mandatory task
            return None
        if k == "OptionalTaskConditionSchedule" and c.get("task") == tn:
            return None
        if k == "OptionalTasksDependency" and tn in (c.get("t1"), c.get("t2")):
            return None
        if k == "ForceScheduleNOptionalTasks" and tn in c.get("tasks", []):
            return None
        out.append(c)
    s["constraints"] = out
    return s


def diff_specs(tier):
    out = []
    for name, spec in c05.optional_cells():
        if "rule.OptionalTaskForceSchedule" in name or "rule.OptionalTaskConditionSchedule" in name:
            continue
        out.append((name, spec))
    for name, spec in families.c03_cells(tier):
        if ".fo." in name or name.endswith(".fo") or ".oo" in name or ".fvo" in name:
            out.append(("C03." + name, spec))
    for name, spec in families.c02_cells(tier):
        if ".fo" in name or ".oo" in name or "fvo" in name or "work_opt" in name or name.startswith("dynamic.Fixedo"):
            out.append(("C02." + name, spec))
    for name, spec in families.c04_cells(tier):
        if ".fo." in name or name.endswith(".fo"):
            out.append(("C04." + name, spec))
    # delayed assignment of an optional task + quantities that sum busy time
    for di, eo in ((1, 0), (2, 1)):
        out.append((f"delayed_workload.di{di}.eo{eo}", families.base(
            5, [families.fx("o", 3, optional=True), families.fx("t1", 2)], workers=[{"name": "w0"}], requirements=[
                {"task": "o", "resource": "w0", "delay_in": di, "early_out": eo}, {"task": "t1", "resource": "w0"}],
            constraints=[{"id": "wl", "kind": "WorkLoad", "resource": "w0", "map": [[0, 5, 2]], "mode": "min"}],
            indicators=[{"id": "u", "kind": "Utilization", "resource": "w0"}])))
    # the same with ONE delay only, tight upper / exact workloads (the other task alone reaches the bound) and the
    # indicators that read the worker's busy table
    for di, eo in ((1, 0), (0, 1), (2, 0), (0, 2)):
        for mode in ("max", "exact"):
            out.append((f"delayed_workload_tight.di{di}.eo{eo}.{mode}", families.base(
                6, [families.fx("o", 3, optional=True), families.fx("t1", 2)],
                workers=[{"name": "w0", "cost": {"kind": "const", "value": 5}}], requirements=[
                    {"task": "o", "resource": "w0", "delay_in": di, "early_out": eo}, {"task": "t1", "resource": "w0"}],
                constraints=[{"id": "wl", "kind": "WorkLoad", "resource": "w0", "map": [[0, 6, 2]], "mode": mode}],
                indicators=[{"id": "u", "kind": "Utilization", "resource": "w0"},
                            {"id": "c", "kind": "ResourceCost", "resources": ["w0"]},
                            {"id": "n", "kind": "NbTasksAssigned", "resource": "w0"}])))
    # an optional LONG task reached through a selection / a cumulative worker whose every candidate is busy from instant 0
    # (whatever the unscheduled task still occupies next to its past instant collides with the others)
    for dur in (3, 5):
        out.append((f"long_unscheduled.selection.d{dur}", families.base(
            2, [families.fx("o", dur, optional=True), families.fx("t1", 2), families.fx("t2", 2)],
            workers=[{"name": "w0"}, {"name": "w1"}],
            selections=[{"id": "s0", "workers": ["w0", "w1"], "n": 1, "kind": "exact"}],
            requirements=[{"task": "o", "resource": "s0"}, {"task": "t1", "resource": "w0"},
                          {"task": "t2", "resource": "w1"}])))
        out.append((f"long_unscheduled.cumulative.d{dur}", families.base(
            2, [families.fx("o", dur, optional=True), families.fx("t1", 2), families.fx("t2", 2)],
            cumulative=[{"name": "cu", "size": 2}],
            requirements=[{"task": "o", "resource": "cu"}, {"task": "t1", "resource": "cu"},
                          {"task": "t2", "resource": "cu"}])))
        out.append((f"long_unscheduled.worker.d{dur}", families.base(
            2, [families.vr("o", dur, dur + 1, optional=True), families.fx("t1", 2)], workers=[{"name": "w0"}],
            requirements=[{"task": "o", "resource": "w0"}, {"task": "t1", "resource": "w0"}])))
    # buffers with an optional accessing task
    for conc in (False, True):
        for kind in ("TaskUnloadBuffer", "TaskLoadBuffer"):
            out.append((f"buffer.{kind}.{conc}", families.base(
                4, [families.fx("o", 1, optional=True), families.fx("t1", 1)],
                buffers=[{"name": "bf", "concurrent": conc, "initial": 2, "lower": 0, "upper": 3}], constraints=[
                    {"id": "a", "kind": kind, "task": "o", "buffer": "bf", "quantity": 2},
                    {"id": "b", "kind": "TaskUnloadBuffer", "task": "t1", "buffer": "bf", "quantity": 1}])))
    return out


def generate(tier, seed):
    cases = []
    for name, spec in diff_specs(tier):
        spec = dict(spec)
        for k in ("workers", "cumulative", "selections", "requirements", "buffers", "constraints", "indicators",
                  "objectives"):
            spec.setdefault(k, [])
        for t in spec["tasks"]:
            if t.get("optional"):
                cases.append({"cid": f"diff-{name}-{t['name']}", "family": "diff:" + name.split(".")[0] + "." +
                              (name.split(".")[1] if "." in name else ""), "kind": "c06diff", "spec": spec,
                              "task": t["name"], "limit": 40 if tier == "quick" else 400, "rng": seed})
    # (b)+(c): soundness grids on the optional-task cells
    for name, spec in c05.optional_cells():
        cases.append({"cid": f"cell-{name}", "family": "cell:opt", "kind": "grid", "spec": spec, "wide": False,
                      "limit": 80 if tier == "quick" else 1000, "rng": seed})
    # indicators / objectives with unscheduled tasks
    for okind in ("Flowtime", "Priorities", "StartEarliest", "StartLatest", "GreatestStart"):
        for forced in (False, None):
            for optimizer in ("incremental", "optimize"):
                tasks = [families.fx("o", 2, optional=True, priority=3), families.fx("t1", 1, priority=2),
                         families.vr("o2", 1, 2, optional=True)]
                cons = [{"id": "s", "kind": "TaskStartAfter", "task": "t1", "value": 1, "mode": "lax"}]
                if forced is False:
                    cons.append({"id": "f", "kind": "OptionalTaskForceSchedule", "task": "o", "value": False})
                spec = families.base(6, tasks, constraints=cons, objectives=[{"kind": okind}])
                cases.append({"cid": f"obj-{okind}-{forced}-{optimizer}", "family": "objective", "kind": "solve",
                              "spec": spec, "plan": {"solver": {"optimizer": optimizer, "max_time": 20}}})
    for ikind in ("Tardiness", "Earliness", "NbTardy", "MaxLateness"):
        for lst in (None, ["o", "t1"]):
            for st in (0, 3):
                tasks = [families.fx("o", 2, optional=True, due_date=3, due_date_is_deadline=False, priority=2),
                         families.fx("t1", 1, due_date=2, due_date_is_deadline=False)]
                cons = [{"id": "f", "kind": "OptionalTaskForceSchedule", "task": "o", "value": False},
                        {"id": "s", "kind": "TaskStartAt", "task": "t1", "value": st}]
                ind = {"id": "i", "kind": ikind}
                if lst:
                    ind["tasks"] = lst
                spec = families.base(6, tasks, constraints=cons, indicators=[ind])
                cases.append({"cid": f"ind-{ikind}-{bool(lst)}-{st}", "family": "indicator", "kind": "solve",
                              "spec": spec, "plan": {"solver": {}}})
    nmix = 40 if tier == "quick" else 600
    for i in range(nmix):
        r = random.Random(f"{seed}-c06-mix-{i}")
        spec = gen.random_spec(r, n_tasks=r.randint(2, 3), profile={"optional": 0.6, "buffers": 0.4})
        opt = [t["name"] for t in spec["tasks"] if t.get("optional")]
        if opt and not any(c["kind"] in rs.LOGIC for c in spec["constraints"]):
            cases.append({"cid": f"mixdiff-{i}", "family": "diff:mixture", "kind": "c06diff", "spec": spec,
                          "task": r.choice(opt), "limit": 25 if tier == "quick" else 150, "rng": seed + i})
        cases.append({"cid": f"mix-grid-{i}", "family": "mixture", "kind": "grid", "spec": spec, "wide": False,
                      "limit": 30 if tier == "quick" else 150, "rng": seed * 1000 + i, "skip_foreign_invalid": True})
    return cases


def _admit(spec, cand, extra_pins):
    pins = pr.candidate_pins(spec, cand) + extra_pins
    res = pr.run_solve(spec, {"pins": pins})
    return res


def o_features(spec, tn):
    t = rs.task_spec(spec, tn)
    f = {"o_type": t["type"], "o_release": bool(t.get("release_date")), "o_deadline": t.get("due_date") is not None
         and t.get("due_date_is_deadline", True), "o_work": bool(t.get("work_amount"))}
    reqs = [r for r in spec.get("requirements", []) if r["task"] == tn]
    f["o_requires"] = sorted({("dynamic" if r.get("dynamic") else "delayed" if (r.get("delay_in") or r.get("early_out"))
                               else "selection" if rs.selection_spec(spec, r["resource"]) else
                               "cumulative" if rs.cumulative_spec(spec, r["resource"]) else "worker") for r in reqs})
    f["o_named_by"] = sorted({c["kind"] for c, _ in rs.all_constraints(spec) if names_task(c, tn)})
    res = {r["resource"] for r in reqs}
    f["o_resource_constraints"] = sorted({c["kind"] for c, _ in rs.all_constraints(spec)
                                          if c.get("resource") in res})
    return f


def run_diff(case):
    acc = common.Acc(PREFIXES)
    spec, tn = case["spec"], case["task"]
    rng = random.Random(case.get("rng", 0))
    removed = remove_task(spec, tn)
    if removed is None:
        acc.empty_ok = True
        acc.count(acc.outcomes, "not_comparable:workload_on_resource_left_unused")
        return acc.result()
    mand = make_mandatory(spec, tn)
    feats = o_features(spec, tn)
    if mand is None:
        acc.count(acc.outcomes, "not_comparable:scheduling_rule_on_the_task")
    # side 1: unscheduled == deleted
    c1 = [c for c in cd.enumerate_candidates(removed, wide=False, limit=20000, rng=rng)]
    if len(c1) > case["limit"]:
        c1 = rng.sample(c1, case["limit"])
    for c in c1:
        full = copy.deepcopy(c)
        full["tasks"][tn] = {"scheduled": False, "start": -1, "end": -1}
        full["chosen"] = {k: v for k, v in full.get("chosen", {}).items()}
        ra = _admit(spec, full, [])
        rb = _admit(removed, c, [])
        acc.executions += 2
        a, b = ra["outcome"], rb["outcome"]
        acc.count(acc.outcomes, f"unsched:{a}/{b}")
        if a in ("sat", "unsat") and b in ("sat", "unsat"):
            acc.sigs.add(common.h([common.h(spec), tn, cd.cand_key(c), "u"]))
            if a != b:
                acc.violation("C06.diff.unscheduled_vs_deleted", "not-inert" if a == "unsat" else "extra-freedom",
                              dict(feats, with_o=a, without_o=b), {"cand": c, "task": tn})
            if a == "sat":
                common.judge_observed(acc, spec, ra, tag="diff", pinned=full)
        elif "build_error" in (a, b) or "exception" in (a, b):
            acc.count(acc.outcomes, f"exc:{(ra.get('exc') or rb.get('exc') or {}).get('type')}")
        else:
            acc.inconclusive.append(f"{a}/{b}")
    # side 2: scheduled == mandatory
    c2 = []
    for c in (cd.enumerate_candidates(mand, wide=False, limit=20000, rng=rng) if mand is not None else []):
        c2.append(c)
    if len(c2) > case["limit"]:
        c2 = rng.sample(c2, case["limit"])
    for c in c2:
        ra = _admit(spec, c, [])      # candidate_pins adds sched=True for optional tasks
        rb = _admit(mand, c, [])
        acc.executions += 2
        a, b = ra["outcome"], rb["outcome"]
        acc.count(acc.outcomes, f"sched:{a}/{b}")
        if a in ("sat", "unsat") and b in ("sat", "unsat"):
            acc.sigs.add(common.h([common.h(spec), tn, cd.cand_key(c), "s"]))
            if a != b:
                acc.violation("C06.diff.scheduled_vs_mandatory", "stricter" if a == "unsat" else "laxer",
                              dict(feats, as_optional=a, as_mandatory=b), {"cand": c, "task": tn})
        elif "build_error" in (a, b) or "exception" in (a, b):
            acc.count(acc.outcomes, f"exc:{(ra.get('exc') or rb.get('exc') or {}).get('type')}")
        else:
            acc.inconclusive.append(f"{a}/{b}")
    if not c1 and not c2:
        acc.empty_ok = True
    if acc.sample is None and c1:
        acc.sample = {"spec": spec, "optional_task": tn, "spec_with_task_deleted": removed,
                      "example_candidate": c1[0], "outcomes": acc.outcomes}
    return acc.result()


def run_case(case):
    if case["kind"] == "c06diff":
        return run_diff(case)
    return common.run_generic(case, PREFIXES)


def floors(tier):
    return {"distinct_nontrivial": 1000}


def shards(tier):
    return 64
