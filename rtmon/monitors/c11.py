"""C11 — the solution object is a faithful, self-consistent report of one schedule."""
import copy
import warnings
import random

from . import common
from .. import families, gen

PROPERTY = "C11"
PREFIXES = ("C11.",)
RULE = ("every SchedulingSolution returned for: the C02 resource catalogue (workers busy from instant 0, cumulative "
        "workers, selections, delayed and dynamic assignments, optional and zero-duration tasks) x calendar settings "
        "(none / delta_time / delta_time+start_time) x horizon given or absent, steered to every valid candidate of the "
        "grid (sampled in quick), plus random mixtures under random_values seeds. Each solution is checked field by field: "
        "span = duration, task view <=> resource view, assignment interval implied by the requirement, cumulative name "
        "folding, horizon >= ends, calendar arithmetic, report = z3 model (hooked). distinct = (spec, candidate|plan).")
ASSUMPTIONS = ["without start_time the calendar fields are not judged (the solution model types them as datetimes)"]
EXHAUSTIVE = {"quick": False, "thorough": False}

CAL = [{}, {"delta_minutes": 15}, {"delta_minutes": 30, "start_time": "2024-03-01T08:00:00"},
       # steps of a day and more (timedelta keeps days apart from seconds), across a month end and a leap day
       {"delta_minutes": 1440, "start_time": "2024-02-27T00:00:00"}, {"delta_minutes": 2160},
       {"delta_minutes": 10080, "start_time": "2023-12-20T06:30:00"}]


def generate(tier, seed):
    cases = []
    cells = families.c02_cells(tier)
    rng = random.Random(seed)
    for idx, (name, spec) in enumerate(cells):
        for ci, cal in enumerate(CAL):
            if tier == "quick" and (idx + ci) % 3 != 0:
                continue
            s2 = copy.deepcopy(spec)
            s2["problem"].update(cal)
            cases.append({"cid": f"cell-{name}-cal{ci}", "family": "cell:" + name.split(".")[0], "kind": "grid",
                          "spec": s2, "wide": False, "only": ["valid", "band"],
                          "limit": 25 if tier == "quick" else 300, "rng": seed + idx})
        # horizon absent: free solves, default and random models
        s3 = copy.deepcopy(spec)
        s3["problem"].pop("horizon", None)
        s3["problem"].update(CAL[idx % len(CAL)])
        for j, cfg in enumerate(({}, {"random_values": True}, {"random_values": True})):
            if tier == "quick" and j == 2:
                continue
            cases.append({"cid": f"nohorizon-{name}-{j}", "family": "nohorizon", "kind": "solve", "spec": s3,
                          "plan": {"solver": cfg, "py_seed": seed * 31 + idx + j}, "user_horizon": False})
    # several solutions out of one solver: selections / optional tasks / cumulative workers whose assignment changes
    for idx, (name, spec) in enumerate(cells):
        if any(k in name for k in ("selection.exact1of2", "selection.min1of2", "two_selections", "one_worker.fo", "cumulative2.fvo",
                                   "selection_dup.exact1", "two_cumulative.fo")):
            for mode in ("another", "variable"):
                cases.append({"cid": f"chain-{name}-{mode}", "family": "solution-chain", "kind": "chain", "spec": spec,
                              "mode": mode, "steps": 6 if tier == "quick" else 20})
    # no user horizon, a precedence whose successor is optional: the reported horizon still covers the predecessor
    from ..families import base, fx, vr
    for mode in ("lax", "strict", "tight"):
        for late in (2, 5):
            for forced in (False, None):
                cons = [{"id": "p", "kind": "TaskPrecedence", "before": "t0", "after": "t1", "offset": 0, "mode": mode},
                        {"id": "s", "kind": "TaskStartAt", "task": "t0", "value": late}]
                if forced is False:
                    cons.append({"id": "f", "kind": "OptionalTaskForceSchedule", "task": "t1", "value": False})
                sp = base(None, [fx("t0", 3), vr("t1", 1, 2, optional=True), fx("t2", 1)], constraints=cons)
                sp["problem"].pop("horizon", None)
                for j, cfg in enumerate(({}, {"random_values": True})):
                    cases.append({"cid": f"nohorizon-prec-{mode}-{late}-{forced}-{j}", "family": "nohorizon-precedence",
                                  "kind": "solve", "spec": sp, "plan": {"solver": cfg, "py_seed": seed + j},
                                  "user_horizon": False})
                sp2 = copy.deepcopy(sp)
                sp2["objectives"] = [{"kind": "Makespan"}]
                cases.append({"cid": f"nohorizon-prec-makespan-{mode}-{late}-{forced}", "family": "nohorizon-precedence",
                              "kind": "solve", "spec": sp2, "plan": {"solver": {}}, "user_horizon": False})
    nmix = 60 if tier == "quick" else 1000
    for i in range(nmix):
        r = random.Random(f"{seed}-c11-mix-{i}")
        spec = gen.random_spec(r, n_tasks=r.randint(2, 4), profile={"selection": 0.5, "cumulative": 0.5,
                                                                    "optional": 0.4, "buffers": 0.3})
        spec["problem"].update(CAL[i % len(CAL)])
        cases.append({"cid": f"mix-grid-{i}", "family": "mixture", "kind": "grid", "spec": spec, "wide": False,
                      "only": ["valid", "band"], "limit": 15 if tier == "quick" else 100, "rng": seed * 1000 + i})
        cases.append({"cid": f"mix-free-{i}", "family": "mixture-free", "kind": "solve", "spec": spec,
                      "plan": {"solver": {"random_values": True}, "py_seed": seed + i}})
    # L7: the repository's own tests under the universal monitors (every tier)
    slow = ["test_solver.py::test_create_start_latest_objective_big_problem",
            "test_solver.py::test_create_start_earliest_objective_big_problem", "test_task.py::test_tasks_contiguous"]
    cases.append({"cid": "suite-replay", "family": "suite", "kind": "suite", "jobs": 16,
                  "deselect": slow if tier == "quick" else []})
    return cases


def run_chain(case):
    """several solutions built by ONE solver object (solve, then find_another_solution / ..._for_variable): every one of
    them is judged like a first solution (nothing may be carried over from the previous ones)"""
    from .. import probe as pr
    from .. import observe as obs
    acc = common.Acc(PREFIXES)
    spec = case["spec"]
    res = pr.run_solve(spec, {"solver": case.get("solver", {})}, keep=True)
    acc.executions += 1
    if res["outcome"] != "sat":
        acc.count(acc.outcomes, res["outcome"])
        acc.empty_ok = True
        return acc.result()
    b, solver = res["_built"], res["_solver"]
    common.judge_observed(acc, spec, res, tag="chain0")
    mand = [t["name"] for t in spec["tasks"] if not t.get("optional")]
    n = 0
    for step in range(case["steps"]):
        try:
            with warnings.catch_warnings():
                warnings.simplefilter("ignore")
                if case["mode"] == "variable" and mand:
                    sol = solver.find_another_solution_for_variable(b.tasks[mand[0]]._start)
                else:
                    sol = solver.find_another_solution()
        except Exception as exc:  # pylint: disable=broad-except
            acc.count(acc.outcomes, f"exc:{type(exc).__name__}")
            break
        acc.executions += 1
        if not sol:
            break
        n += 1
        common.judge_observed(acc, spec, {"sched": obs.observe(b, sol, solver._model)}, tag=f"chain{min(step + 1, 3)}")
    acc.count(acc.outcomes, f"chain_solutions>={min(n, 3)}")
    acc.sigs.add(common.h([common.h(spec), case["mode"], case["steps"]]))
    acc.sample = {"spec": spec, "mode": case["mode"], "solutions_judged": n + 1}
    return acc.result()


def run_case(case):
    if case["kind"] == "chain":
        return run_chain(case)
    return common.run_generic(case, PREFIXES)


def floors(tier):
    return {"distinct_nontrivial": 1000, "C11.task_lists_resource_implies_assignment:T@sat": 500,
            "C11.calendar.start:T@sat": 100, "C11.report_eq_model:T@sat": 1000}


def shards(tier):
    return 64
