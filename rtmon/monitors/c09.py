"""C09 — buffer levels follow loads/unloads in time order and stay within bounds."""
import random

from . import common
from .. import families, gen

PROPERTY = "C09"
PREFIXES = ("C09.",)
RULE = ("catalogue of buffer micro-Specs (concurrent / non-concurrent x initial/final/lower/upper combinations x "
        "unload+load, two unloads, two loads incl. zero-duration, three accesses); every placement of the accessing "
        "tasks on the horizon (every tie pattern) is pinned and solved; reported (level, level_change_times) is compared "
        "with the replay of the accesses grouped by instant; refused candidates that break a buffer rule are counted. "
        "steer cases minimise/maximise the buffer-level extrema with both optimisers. distinct = distinct (spec, candidate|plan).")
ASSUMPTIONS = ["concurrent buffers use quantified assertions: unknown answers are inconclusive",
               "levels of unscheduled accessing tasks are C06's subject (band here)"]
EXHAUSTIVE = {"quick": True, "thorough": True}


def generate(tier, seed):
    cases = []
    for name, spec in families.c09_cells(tier):
        cases.append({"cid": f"cell-{name}", "family": "cell:" + name.split(".")[0] + "." + name.split(".")[1]
                      if "." in name else "cell:" + name, "kind": "grid", "spec": spec, "wide": False,
                      "limit": None if tier != "quick" else 600, "rng": seed})
        # steer: extrema of the level
        for okind in ("MaximizeMaxBufferLevel", "MinimizeMaxBufferLevel"):
            for optimizer in ("incremental", "optimize"):
                s2 = dict(spec, objectives=[{"kind": okind, "buffer": spec["buffers"][0]["name"]}])
                cases.append({"cid": f"steer-{name}-{okind}-{optimizer}", "family": "steer", "kind": "solve",
                              "spec": s2, "plan": {"solver": {"optimizer": optimizer, "max_time": 20}}})
    nmix = 40 if tier == "quick" else 600
    for i in range(nmix):
        r = random.Random(f"{seed}-c09-mix-{i}")
        spec = gen.random_spec(r, n_tasks=r.randint(2, 3 if tier == "quick" else 4),
                               profile={"buffers": 1.0, "task_constraints": 1, "resource_constraints": 0,
                                        "optional": 0.15})
        cases.append({"cid": f"mix-grid-{i}", "family": "mixture", "kind": "grid", "spec": spec, "wide": False,
                      "limit": 40 if tier == "quick" else 150, "rng": seed * 1000 + i, "skip_foreign_invalid": True})
        cases.append({"cid": f"mix-free-{i}", "family": "mixture-free", "kind": "solve", "spec": spec,
                      "plan": {"solver": {}}})
    if tier != "quick":
        # L7: the repository's own tests under the universal monitors
        cases.append({"cid": "suite-replay", "family": "suite", "kind": "suite", "jobs": 8})
    return cases


def run_case(case):
    return common.run_generic(case, PREFIXES)


def floors(tier):
    return {"distinct_nontrivial": 1000, "C09.replay:T@sat": 500, "C09.non_concurrent_tie:refused": 50,
            "C09.levels_within_rules:refused": 100}


def shards(tier):
    return 64
