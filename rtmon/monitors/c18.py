"""C18 — ill-formed model elements are rejected at creation, well-formed ones accepted."""
import json
import os
import subprocess
import sys
import warnings

import z3

from . import common, c05, c08
from .. import build as bld
from .. import families as fam

import processscheduler as ps

PROPERTY = "C18"
PREFIXES = ("C18.",)
RULE = ("a table of constructor / add_required_resource calls derived from the statement, each on both sides of its "
        "boundary and each in a fresh problem: duplicate names per kind (and the same name across kinds), fixed duration "
        "{-1,0|1}, work amount / priority / min duration {-1|0}, selection k {n+1|n} and list length {0,1|2}, cumulative "
        "size {0,1|2}, optional-task rules on mandatory/optional tasks, force-apply over mandatory/optional constraints, "
        "every resource constraint on an unassigned / assigned resource (one and two tasks), unknown keywords, and every "
        "element class with no problem alive (fresh interpreter per class). Any exception counts as rejection. The converse "
        "is also driven by every catalogue Spec of the other checks, which must build. After a rejected call the same "
        "problem keeps being used. distinct = table row | catalogue spec.")
ASSUMPTIONS = ["the accept/reject table is derived from the property statement only"]
EXHAUSTIVE = {"quick": True, "thorough": True}

REJECT, ACCEPT = "reject", "accept"


def P(h=10):
    return ps.SchedulingProblem(name="c18", horizon=h)


def T(name="t", d=2, **kw):
    return ps.FixedDurationTask(name=name, duration=d, **kw)


def table():
    rows = []

    def row(rid, expect, fn, rule):
        rows.append((rid, expect, fn, rule))

    # --- durations, amounts, priorities
    for d in (-1, 0):
        row(f"fixed_duration={d}", REJECT, lambda d=d: (P(), ps.FixedDurationTask(name="t", duration=d)), "duration")
    for d in (1, 2):
        row(f"fixed_duration={d}", ACCEPT, lambda d=d: (P(), ps.FixedDurationTask(name="t", duration=d)), "duration")
    for cls_name, mk in (("Fixed", lambda **kw: ps.FixedDurationTask(name="t", duration=1, **kw)),
                         ("Zero", lambda **kw: ps.ZeroDurationTask(name="t", **kw)),
                         ("Variable", lambda **kw: ps.VariableDurationTask(name="t", **kw))):
        for field in ("work_amount", "priority"):
            row(f"{cls_name}.{field}=-1", REJECT, lambda mk=mk, field=field: (P(), mk(**{field: -1})), field)
            row(f"{cls_name}.{field}=0", ACCEPT, lambda mk=mk, field=field: (P(), mk(**{field: 0})), field)
            row(f"{cls_name}.{field}=3", ACCEPT, lambda mk=mk, field=field: (P(), mk(**{field: 3})), field)
    row("min_duration=-1", REJECT, lambda: (P(), ps.VariableDurationTask(name="t", min_duration=-1)), "min_duration")
    row("min_duration=0", ACCEPT, lambda: (P(), ps.VariableDurationTask(name="t", min_duration=0)), "min_duration")
    row("min_duration=2", ACCEPT, lambda: (P(), ps.VariableDurationTask(name="t", min_duration=2, max_duration=2)),
        "min_duration")
    # --- duplicate names
    def dup(mk1, mk2):
        P()
        mk1()
        mk2()

    row("dup.task", REJECT, lambda: dup(lambda: T("x"), lambda: T("x")), "duplicate")
    row("dup.task.other_type", REJECT, lambda: dup(lambda: T("x"), lambda: ps.ZeroDurationTask(name="x")), "duplicate")
    row("dup.worker", REJECT, lambda: dup(lambda: ps.Worker(name="x"), lambda: ps.Worker(name="x")), "duplicate")
    row("dup.cumulative", REJECT, lambda: dup(lambda: ps.CumulativeWorker(name="x", size=2),
                                              lambda: ps.CumulativeWorker(name="x", size=3)), "duplicate")
    row("dup.buffer", REJECT, lambda: dup(lambda: ps.NonConcurrentBuffer(name="x", initial_level=0),
                                          lambda: ps.ConcurrentBuffer(name="x", initial_level=1)), "duplicate")
    row("dup.constraint", REJECT, lambda: dup(lambda: ps.TaskStartAt(name="c", task=T("a"), value=1),
                                              lambda: ps.TaskEndAt(name="c", task=T("b"), value=5)), "duplicate")
    row("dup.indicator", REJECT, lambda: dup(
        lambda: ps.IndicatorFromMathExpression(name="i", expression=T("a")._start),
        lambda: ps.IndicatorFromMathExpression(name="i", expression=T("b")._end)), "duplicate")

    row("dup.objective", REJECT, lambda: dup(lambda: (T("a"), ps.ObjectiveMinimizeMakespan()),
                                             lambda: ps.ObjectiveMinimizeMakespan()), "duplicate")

    def dup_sel():
        P()
        w1, w2 = ps.Worker(name="w1"), ps.Worker(name="w2")
        ps.SelectWorkers(name="s", list_of_workers=[w1, w2])
        ps.SelectWorkers(name="s", list_of_workers=[w1, w2])
    row("dup.selection", REJECT, dup_sel, "duplicate")
    row("same_name_other_kind.task_worker", ACCEPT, lambda: dup(lambda: T("x"), lambda: ps.Worker(name="x")), "duplicate")
    row("same_name_other_kind.task_buffer", ACCEPT, lambda: dup(lambda: T("x"),
                                                                lambda: ps.NonConcurrentBuffer(name="x", initial_level=0)),
        "duplicate")
    row("distinct_names.tasks", ACCEPT, lambda: dup(lambda: T("x"), lambda: T("x_")), "duplicate")
    row("distinct_names.workers", ACCEPT, lambda: dup(lambda: ps.Worker(name="x"), lambda: ps.Worker(name="X")), "duplicate")

    # --- selections, cumulative
    def sel(n_list, k, kind="exact"):
        P()
        ws = [ps.Worker(name=f"w{i}") for i in range(n_list)]
        ps.SelectWorkers(list_of_workers=ws, nb_workers_to_select=k, kind=kind)

    for n_list in (0, 1):
        row(f"selection.list_len={n_list}", REJECT, lambda n_list=n_list: sel(n_list, 1), "selection")
    for n_list in (2, 3):
        for kind in ("exact", "min", "max"):
            row(f"selection.{kind}.k=n+1.len={n_list}", REJECT, lambda n_list=n_list, kind=kind: sel(n_list, n_list + 1, kind),
                "selection")
            row(f"selection.{kind}.k=n.len={n_list}", ACCEPT, lambda n_list=n_list, kind=kind: sel(n_list, n_list, kind),
                "selection")
            row(f"selection.{kind}.k=1.len={n_list}", ACCEPT, lambda n_list=n_list, kind=kind: sel(n_list, 1, kind), "selection")
    def sel_cum(sizes, n_plain, k, kind="exact"):
        P()
        ws = [ps.CumulativeWorker(name=f"c{i}", size=sz) for i, sz in enumerate(sizes)]
        ws += [ps.Worker(name=f"w{i}") for i in range(n_plain)]
        ps.SelectWorkers(list_of_workers=ws, nb_workers_to_select=k, kind=kind)

    for kind in ("exact", "min", "max"):
        row(f"selection.{kind}.with_cumulative3.k=n+1", REJECT, lambda kind=kind: sel_cum([3], 1, 3, kind), "selection")
        row(f"selection.{kind}.with_cumulative3.k=n", ACCEPT, lambda kind=kind: sel_cum([3], 1, 2, kind), "selection")
    # a worker required twice by one task (directly and through a selection, in either order, or through two
    # selections): the model has one busy interval per (worker, task), the second requirement would silently replace
    # the first and the task would no longer occupy the worker it requires
    def twice(order):
        P()
        t = T("a")
        w0, w1, w2 = (ps.Worker(name=f"w{i}") for i in range(3))
        s01 = ps.SelectWorkers(list_of_workers=[w0, w1], nb_workers_to_select=1)
        if order == "direct_then_selection":
            t.add_required_resource(w0)
            t.add_required_resource(s01)
        elif order == "selection_then_direct":
            t.add_required_resource(s01)
            t.add_required_resource(w0)
        elif order == "two_selections_sharing":
            t.add_required_resource(s01)
            t.add_required_resource(ps.SelectWorkers(list_of_workers=[w1, w2], nb_workers_to_select=1))
        elif order == "direct_twice":
            t.add_required_resource(w0)
            t.add_required_resource(w0)
        elif order == "direct_and_disjoint_selection":
            t.add_required_resource(w2)
            t.add_required_resource(s01)
        elif order == "two_disjoint_selections":
            w3 = ps.Worker(name="w3")
            t.add_required_resource(s01)
            t.add_required_resource(ps.SelectWorkers(list_of_workers=[w2, w3], nb_workers_to_select=1))
    for order in ("direct_then_selection", "selection_then_direct", "two_selections_sharing", "direct_twice"):
        row(f"required_twice.{order}", REJECT, lambda order=order: twice(order), "required_twice")
    for order in ("direct_and_disjoint_selection", "two_disjoint_selections"):
        row(f"required_twice.{order}", ACCEPT, lambda order=order: twice(order), "required_twice")
    # "from fewer than two": a single entry, whatever it is (a cumulative worker of any size is ONE entry)
    for kind in ("exact", "min", "max"):
        for size in (2, 4):
            row(f"selection.{kind}.single_cumulative{size}", REJECT, lambda kind=kind, size=size: sel_cum([size], 0, 1, kind),
                "selection")
    row("selection.two_cumulative2.k=n+1", REJECT, lambda: sel_cum([2, 2], 0, 3), "selection")
    row("selection.two_cumulative2.k=n", ACCEPT, lambda: sel_cum([2, 2], 0, 2), "selection")
    for size in (0, 1):
        row(f"cumulative.size={size}", REJECT, lambda size=size: (P(), ps.CumulativeWorker(name="c", size=size)), "cumulative")
    for size in (2, 3):
        row(f"cumulative.size={size}", ACCEPT, lambda size=size: (P(), ps.CumulativeWorker(name="c", size=size)), "cumulative")
    row("cumulative.size=2.productivity=5.cost=3", ACCEPT,
        lambda: (P(), ps.CumulativeWorker(name="c", size=2, productivity=5, cost=ps.ConstantFunction(value=3))), "cumulative")

    # --- optional-task rules
    def opt_rule(kind, optional):
        P()
        t = T("o", optional=optional)
        u = T("u", optional=True)
        if kind == "force":
            ps.OptionalTaskForceSchedule(task=t, to_be_scheduled=True)
        elif kind == "condition":
            ps.OptionalTaskConditionSchedule(task=t, condition=u._start > 2)
        elif kind == "dependency":
            ps.OptionalTasksDependency(task_1=u, task_2=t)
        elif kind == "forceN":
            ps.ForceScheduleNOptionalTasks(list_of_optional_tasks=[u, t], nb_tasks_to_schedule=1)

    for kind in ("force", "condition", "dependency", "forceN"):
        row(f"optional_rule.{kind}.on_mandatory", REJECT, lambda kind=kind: opt_rule(kind, False), "optional_rule")
        row(f"optional_rule.{kind}.on_optional", ACCEPT, lambda kind=kind: opt_rule(kind, True), "optional_rule")

    def force_apply(optional):
        P()
        c1 = ps.TaskStartAt(task=T("a"), value=1, optional=optional)
        c2 = ps.TaskStartAt(task=T("b"), value=2, optional=True)
        ps.ForceApplyNOptionalConstraints(list_of_optional_constraints=[c1, c2], nb_constraints_to_apply=1)
    row("force_apply.over_mandatory", REJECT, lambda: force_apply(False), "force_apply")
    row("force_apply.over_optional", ACCEPT, lambda: force_apply(True), "force_apply")

    # --- resource constraints on unassigned / assigned resources
    def rc(kind, n_tasks, cumulative=False):
        P()
        res = ps.CumulativeWorker(name="r", size=2) if cumulative else ps.Worker(name="r")
        for i in range(n_tasks):
            T(f"t{i}").add_required_resource(res)
        if kind == "WorkLoad":
            ps.WorkLoad(resource=res, dict_time_intervals_and_bound={(0, 4): 2})
        elif kind == "ResourceUnavailable":
            ps.ResourceUnavailable(resource=res, list_of_time_intervals=[(1, 3)])
        elif kind == "ResourcePeriodicallyUnavailable":
            ps.ResourcePeriodicallyUnavailable(resource=res, list_of_time_intervals=[(1, 2)], period=4)
        elif kind == "ResourceInterrupted":
            ps.ResourceInterrupted(resource=res, list_of_time_intervals=[(1, 3)])
        elif kind == "ResourcePeriodicallyInterrupted":
            ps.ResourcePeriodicallyInterrupted(resource=res, list_of_time_intervals=[(1, 2)], period=4)
        elif kind == "ResourceTasksDistance":
            ps.ResourceTasksDistance(resource=res, distance=1)
        elif kind == "ResourceNonDelay":
            ps.ResourceNonDelay(resource=res)

    for kind in ("WorkLoad", "ResourceUnavailable", "ResourcePeriodicallyUnavailable", "ResourceInterrupted",
                 "ResourcePeriodicallyInterrupted", "ResourceTasksDistance", "ResourceNonDelay"):
        row(f"{kind}.unassigned", REJECT, lambda kind=kind: rc(kind, 0), "unassigned_resource")
        row(f"{kind}.two_tasks", ACCEPT, lambda kind=kind: rc(kind, 2), "unassigned_resource")
        if kind != "ResourceTasksDistance":
            row(f"{kind}.one_task", ACCEPT, lambda kind=kind: rc(kind, 1), "unassigned_resource")
        if kind not in ("ResourceTasksDistance", "ResourceNonDelay"):
            row(f"{kind}.cumulative.unassigned", REJECT, lambda kind=kind: rc(kind, 0, True), "unassigned_resource")
            row(f"{kind}.cumulative.two_tasks", ACCEPT, lambda kind=kind: rc(kind, 2, True), "unassigned_resource")
    for kind in ("ResourceTasksDistance", "ResourceNonDelay"):
        row(f"{kind}.cumulative.two_tasks", ACCEPT, lambda kind=kind: rc(kind, 2, True), "cumulative_sorted_busy_table")
    row("ScheduleN.max1.one_task", ACCEPT, lambda: (P(), ps.ScheduleNTasksInTimeIntervals(
        list_of_tasks=[T("a")], nb_tasks_to_schedule=1, list_of_time_intervals=[(0, 4)], kind="max")), "single_element")
    row("ScheduleN.max1.one_task.two_intervals", ACCEPT, lambda: (P(), ps.ScheduleNTasksInTimeIntervals(
        list_of_tasks=[T("a")], nb_tasks_to_schedule=1, list_of_time_intervals=[(0, 3), (5, 8)], kind="max")),
        "single_element")

    # --- an interruption that does not fit into its period (the lengthening of the task is defined within one period):
    #     rejected wherever the offending interval stands in the list; the exact boundary is accepted
    def periodic_interrupt(intervals, period, n_tasks=1):
        P()
        w = ps.Worker(name="w")
        for i in range(n_tasks):
            T(f"t{i}").add_required_resource(w)
        ps.ResourcePeriodicallyInterrupted(resource=w, list_of_time_intervals=intervals, period=period)
    for nm, ivs, per, verdict in (("only", [(4, 7)], 5, REJECT), ("last", [(0, 1), (4, 7)], 5, REJECT),
                                  ("first", [(4, 7), (0, 1)], 5, REJECT), ("middle", [(0, 1), (4, 7), (2, 3)], 5, REJECT),
                                  ("boundary", [(0, 1), (3, 5)], 5, ACCEPT), ("boundary_first", [(3, 5), (0, 1)], 5, ACCEPT),
                                  ("inside", [(1, 2), (3, 4)], 5, ACCEPT)):
        for nt in (1, 2):
            row(f"ResourcePeriodicallyInterrupted.beyond_period.{nm}.tasks{nt}", verdict,
                lambda ivs=ivs, per=per, nt=nt: periodic_interrupt(ivs, per, nt), "interval_vs_period")

    def repeated_interval():
        P()
        w = ps.Worker(name="w")
        T("a").add_required_resource(w)
        ps.ResourceUnavailable(resource=w, list_of_time_intervals=[(0, 2), (0, 2)])
    row("ResourceUnavailable.repeated_interval", ACCEPT, repeated_interval, "single_element")
    row("TasksContiguous.one_task", ACCEPT, lambda: (P(), ps.TasksContiguous(list_of_tasks=[T("a")])), "single_element")
    row("TasksContiguous.two_tasks", ACCEPT, lambda: (P(), ps.TasksContiguous(list_of_tasks=[T("a"), T("b")])),
        "single_element")

    def idle(n):
        P()
        w = ps.Worker(name="w")
        for i in range(n):
            T(f"t{i}").add_required_resource(w)
        ps.IndicatorResourceIdle(resource=w)
    row("IndicatorResourceIdle.one_task", ACCEPT, lambda: idle(1), "single_element")
    row("IndicatorResourceIdle.two_tasks", ACCEPT, lambda: idle(2), "single_element")

    # --- unknown keywords
    row("extra_kw.task", REJECT, lambda: (P(), ps.FixedDurationTask(name="t", duration=1, colour="red")), "extra_kw")
    row("extra_kw.worker", REJECT, lambda: (P(), ps.Worker(name="w", speed=3)), "extra_kw")
    row("extra_kw.problem", REJECT, lambda: ps.SchedulingProblem(name="p", horizon=3, flavour=1), "extra_kw")
    row("extra_kw.constraint", REJECT, lambda: (P(), ps.TaskStartAt(task=T("a"), value=1, strict=True)), "extra_kw")
    row("extra_kw.solver", REJECT, lambda: ps.SchedulingSolver(problem=P(), turbo=True), "extra_kw")

    # --- a rejected call must not poison the problem: keep using it
    def after_failure():
        pb = P()
        for bad in (lambda: ps.FixedDurationTask(name="bad", duration=0),
                    lambda: ps.SelectWorkers(list_of_workers=[ps.Worker(name="only")]),
                    lambda: ps.ResourceUnavailable(resource=ps.Worker(name="idle"), list_of_time_intervals=[(0, 1)])):
            try:
                bad()
            except Exception:  # pylint: disable=broad-except
                pass
        a = T("a")
        w = ps.Worker(name="w")
        a.add_required_resource(w)
        sol = ps.SchedulingSolver(problem=pb).solve()
        if not sol:
            raise AssertionError("problem unusable after a rejected constructor")
    row("usable_after_rejections", ACCEPT, after_failure, "after_rejection")
    return rows


NO_PROBLEM = {
    "FixedDurationTask": "ps.FixedDurationTask(name='t', duration=1)",
    "ZeroDurationTask": "ps.ZeroDurationTask(name='t')",
    "VariableDurationTask": "ps.VariableDurationTask(name='t')",
    "Worker": "ps.Worker(name='w')",
    "CumulativeWorker": "ps.CumulativeWorker(name='c', size=2)",
    "NonConcurrentBuffer": "ps.NonConcurrentBuffer(name='b', initial_level=0)",
    "ConcurrentBuffer": "ps.ConcurrentBuffer(name='b', initial_level=0)",
    "IndicatorFromMathExpression": "ps.IndicatorFromMathExpression(name='i', expression=3)",
    "ObjectiveMinimizeMakespan": "ps.ObjectiveMinimizeMakespan()",
    "ConstraintFromExpression": "ps.ConstraintFromExpression(expression=z3.Int('x') > 1)",
}


def run_no_problem(case):
    acc = common.Acc(PREFIXES)
    root = os.path.dirname(os.path.dirname(os.path.dirname(os.path.abspath(__file__))))
    for cls in case["classes"]:
        code = ("import z3, processscheduler as ps\n"
                "try:\n    " + NO_PROBLEM[cls] + "\n    print('RESULT accepted')\n"
                "except BaseException as e:\n    print('RESULT rejected', type(e).__name__)\n")
        env = dict(os.environ)
        p = subprocess.run([sys.executable, "-c", code], capture_output=True, text=True, timeout=120, env=env)
        acc.executions += 1
        line = next((l for l in p.stdout.splitlines() if l.startswith("RESULT")), None)
        if line is None:
            acc.inconclusive.append(f"no result for {cls}: {p.stderr[-200:]}")
            continue
        rejected = "rejected" in line
        acc.sigs.add(common.h(["noproblem", cls]))
        acc.count(acc.clauses, f"C18.no_problem.{cls}:{'T' if rejected else 'F'}")
        if not rejected:
            acc.violation("C18.accepted_ill_formed", "accepted", {"rule": "no_problem", "cls": cls}, {"code": NO_PROBLEM[cls]})
    acc.sample = {"classes": case["classes"], "each": "fresh interpreter, no SchedulingProblem created"}
    return acc.result()


def run_table(case):
    acc = common.Acc(PREFIXES)
    tab = {r[0]: r for r in table()}
    for rid in case["rows"]:
        _id, expect, fn, rule = tab[rid]
        try:
            with warnings.catch_warnings():
                warnings.simplefilter("ignore")
                fn()
            got = ACCEPT
            exc = None
        except Exception as e:  # pylint: disable=broad-except
            got = REJECT
            exc = f"{type(e).__name__}: {str(e)[:150]}"
        acc.executions += 1
        acc.sigs.add(common.h(["row", rid]))
        acc.count(acc.clauses, f"C18.{rule}.{expect}:{'T' if got == expect else 'F'}")
        if got != expect:
            acc.violation("C18.rejected_well_formed" if expect == ACCEPT else "C18.accepted_ill_formed",
                          "rejected" if expect == ACCEPT else "accepted", {"rule": rule, "row": rid.split("=")[0]},
                          {"row": rid, "exception": exc})
        if acc.sample is None:
            acc.sample = {"row": rid, "expected": expect, "observed": got, "exception": exc}
    return acc.result()


def run_catalogue(case):
    """converse: every well-formed catalogue Spec builds"""
    acc = common.Acc(PREFIXES)
    for name, spec in case["specs"]:
        try:
            with warnings.catch_warnings():
                warnings.simplefilter("ignore")
                bld.build(spec)
            ok, exc = True, None
        except bld.BuildError as e:
            ok, exc = False, {"stage": e.stage, "item": str(e.item), "type": type(e.exc).__name__, "msg": str(e.exc)[:200]}
        acc.executions += 1
        acc.sigs.add(common.h(["cat", name]))
        acc.count(acc.clauses, f"C18.catalogue_builds:{'T' if ok else 'F'}")
        if not ok:
            kind = next((c["kind"] for c in spec.get("constraints", []) if c.get("id") == exc["item"]), exc["stage"])
            acc.violation("C18.rejected_well_formed", "rejected", {"rule": "catalogue", "kind": kind, "exc": exc["type"]},
                          {"cell": name, "exc": exc})
    acc.sample = {"catalogue_specs": len(case["specs"]), "first": case["specs"][0][0] if case["specs"] else None}
    return acc.result()


def generate(tier, seed):
    cases = []
    ids = [r[0] for r in table()]
    for k in range(0, len(ids), 12):
        cases.append({"cid": f"table-{k}", "family": "table", "kind": "table", "rows": ids[k:k + 12]})
    cls = list(NO_PROBLEM)
    for k in range(0, len(cls), 2):
        cases.append({"cid": f"noproblem-{k}", "family": "no_problem", "kind": "noproblem", "classes": cls[k:k + 2]})
    cat = []
    cat += [("C02." + n, s) for n, s in fam.c02_cells(tier)]
    cat += [("C03." + n, s) for n, s in fam.c03_cells(tier)]
    cat += [("C04." + n, s) for n, s in fam.c04_cells(tier)]
    cat += [("C09." + n, s) for n, s in fam.c09_cells(tier)]
    cat += [("C06." + n, s) for n, s in c05.optional_cells()]
    cat += [("C08." + n, s) for n, s, _h in c08.cells(tier)]
    for k in range(0, len(cat), 60):
        cases.append({"cid": f"catalogue-{k}", "family": "catalogue", "kind": "catalogue", "specs": cat[k:k + 60]})
    return cases


def run_case(case):
    k = case["kind"]
    if k == "table":
        return run_table(case)
    if k == "noproblem":
        return run_no_problem(case)
    return run_catalogue(case)


def floors(tier):
    return {"distinct_nontrivial": 150, "C18.catalogue_builds:T": 800}


def shards(tier):
    return 32
