"""C12 — asking for another solution enumerates distinct valid schedules, exhaustively."""
import random
import warnings

from . import common, hist
from .. import build as bld
from .. import families as fam
from .. import instrument as ins
from .. import observe as obs
from .. import probe as pr
from .. import refsem as rs

import processscheduler as ps

PROPERTY = "C12"
PREFIXES = ("C12.",)
RULE = ("bounded problems (1-3 tasks: fixed / variable / zero / optional, 0-2 workers, selections, one constraint, "
        "horizon 3-5, |T(P)| <= 400). T(P) = the timings admitted by fresh single-use solver instances over the whole "
        "timing grid. One solver object: solve() then find_another_solution() until it fails (or chains mixing "
        "find_another_solution_for_variable). The recorded history must be a duplicate-free walk inside T(P) whose "
        "failure comes only at exhaustion (z3 trace shows unsat, not unknown); every visited schedule also passes the "
        "soundness clauses; the variable request must change the variable. distinct = (spec, history kind); evidence "
        "lists history lengths and |T(P)|.")
ASSUMPTIONS = ["two schedules are 'the same' when all tasks agree on start, end and scheduled status (selections and "
               "dynamic spans are not part of the key, as in the statement)"]
EXHAUSTIVE = {"quick": False, "thorough": False}


def problems(tier):
    W = [{"name": "w0"}, {"name": "w1"}]
    out = [
        ("f1", fam.base(4, [fam.fx("t0", 2)])),
        ("v1", fam.base(3, [fam.vr("t0", 1, 2)])),
        ("z1", fam.base(3, [fam.zr("t0")])),
        # a variable-duration task that may collapse to a single instant (start == end for some timings only)
        ("v0", fam.base(3, [fam.vr("t0", 0, 3)])),
        ("fv0", fam.base(2, [fam.fx("t0", 1), fam.vr("t1", 0, 1)])),
        ("o1", fam.base(3, [fam.fx("t0", 1, optional=True)])),
        ("ff", fam.base(4, [fam.fx("t0", 2), fam.fx("t1", 1)])),
        ("ff.worker", fam.base(4, [fam.fx("t0", 2), fam.fx("t1", 1)], workers=W[:1], requirements=[
            {"task": "t0", "resource": "w0"}, {"task": "t1", "resource": "w0"}])),
        ("fv.prec", fam.base(4, [fam.fx("t0", 1), fam.vr("t1", 1, 2)], constraints=[
            {"id": "c", "kind": "TaskPrecedence", "before": "t0", "after": "t1", "mode": "lax"}])),
        ("fo", fam.base(3, [fam.fx("t0", 1), fam.fx("t1", 1, optional=True)])),
        ("fo.worker", fam.base(3, [fam.fx("t0", 1), fam.fx("t1", 2, optional=True)], workers=W[:1], requirements=[
            {"task": "t0", "resource": "w0"}, {"task": "t1", "resource": "w0"}])),
        ("oo.force1", fam.base(3, [fam.fx("t0", 1, optional=True), fam.vr("t1", 1, 2, optional=True)], constraints=[
            {"id": "c", "kind": "ForceScheduleNOptionalTasks", "tasks": ["t0", "t1"], "n": 1, "mode": "min"}])),
        ("f.sel", fam.base(3, [fam.fx("t0", 1), fam.fx("t1", 1)], workers=W, selections=[
            {"id": "s0", "workers": ["w0", "w1"], "n": 1, "kind": "exact"}], requirements=[
            {"task": "t0", "resource": "s0"}, {"task": "t1", "resource": "w0"}])),
        ("fz.sync", fam.base(4, [fam.fx("t0", 2), fam.zr("t1")], constraints=[
            {"id": "c", "kind": "TasksEndSynced", "t1": "t0", "t2": "t1"}])),
        ("fff.worker", fam.base(3, [fam.fx("t0", 1), fam.fx("t1", 1), fam.fx("t2", 1)], workers=W[:1], requirements=[
            {"task": t, "resource": "w0"} for t in ("t0", "t1", "t2")])),
        ("infeasible", fam.base(2, [fam.fx("t0", 2), fam.fx("t1", 1)], workers=W[:1], requirements=[
            {"task": "t0", "resource": "w0"}, {"task": "t1", "resource": "w0"}])),
    ]
    # requests that follow an OPTIMISATION: the optimum comes first, the other valid timings must still all be visited
    # (objectives whose first model is rarely the best one, so that the incremental loop iterates)
    ind = lambda e: [{"id": "i", "kind": "FromExpr", "name": "q", "expr": e}]  # noqa
    out += [
        ("ff.startlatest", fam.base(4, [fam.fx("t0", 2), fam.fx("t1", 1)], objectives=[{"kind": "StartLatest"}])),
        ("ff.flowtime", fam.base(4, [fam.fx("t0", 2), fam.fx("t1", 1)], objectives=[{"kind": "Flowtime"}])),
        ("fo.max_user", fam.base(4, [fam.fx("t0", 1), fam.fx("t1", 1, optional=True)], indicators=ind(
            ["+", ["start", "t0"], ["start", "t0"]]), objectives=[{"kind": "MaximizeIndicator", "indicator": "i",
                                                                  "weight": 1}])),
        ("fv.makespan.worker", fam.base(4, [fam.fx("t0", 1), fam.vr("t1", 1, 2)], workers=W[:1], requirements=[
            {"task": "t0", "resource": "w0"}, {"task": "t1", "resource": "w0"}], objectives=[{"kind": "Makespan"}])),
    ]
    if tier != "quick":
        out += [
            ("fvo", fam.base(5, [fam.fx("t0", 2), fam.vr("t1", 1, 3), fam.fx("t2", 1, optional=True)])),
            ("fff5", fam.base(5, [fam.fx("t0", 1), fam.fx("t1", 2), fam.fx("t2", 1)], workers=W[:1], requirements=[
                {"task": "t0", "resource": "w0"}, {"task": "t1", "resource": "w0"}])),
            ("ooo", fam.base(3, [fam.fx("t0", 1, optional=True), fam.fx("t1", 1, optional=True),
                                 fam.vr("t2", 1, 2, optional=True)], workers=W, selections=[
                {"id": "s0", "workers": ["w0", "w1"], "n": 1, "kind": "min"}], requirements=[
                {"task": "t0", "resource": "s0"}, {"task": "t1", "resource": "w0"}])),
        ]
    return out


def judge_visit(acc, spec, S):
    rep, _P = rs.evaluate_observed(spec, S)
    acc.add_report(rep, "visit")
    bad = [(c, d) for c, d in rep.failed() if c.startswith(("C01.", "C02.", "C03.", "C04.", "C09."))]
    for c, d in bad:
        acc.violation("C12.visited_invalid", "admitted-invalid", {"clause": c}, {"clause_detail": d})


def run_history(case):
    acc = common.Acc(PREFIXES)
    spec = case["spec"]
    mode = case["mode"]
    rng = random.Random(case.get("rng", 0))
    T, unknown, nref = hist.reference_set(spec)
    acc.executions += nref
    if unknown:
        acc.inconclusive.append(f"{unknown} unknown in reference set")
        return acc.result()
    ins.reset_case()
    with warnings.catch_warnings():
        warnings.simplefilter("ignore")
        b = bld.build(spec)
        solver = ps.SchedulingSolver(problem=b.problem, max_time=30, **case.get("solver", {}))
    visited = []
    ops = []
    feats = {"mode": mode, "any_optional": any(t.get("optional") for t in spec["tasks"])}

    def step(name, fn):
        nchk = len(ins.check_results())
        try:
            with warnings.catch_warnings():
                warnings.simplefilter("ignore")
                sol = fn()
        except Exception as exc:  # pylint: disable=broad-except
            acc.violation("C12.exception", "exception", dict(feats, op=name, exc=type(exc).__name__),
                          {"msg": str(exc)[:300], "history": ops})
            return "exc", None
        acc.executions += 1
        new_checks = ins.check_results()[nchk:]
        if sol is False or sol is None:
            ops.append((name, "False"))
            return ("unknown" if (new_checks and new_checks[-1] == "unknown") else "false"), None
        S = obs.observe(b, sol, solver._model)
        ops.append((name, "solution"))
        return "sol", S

    st, S = step("solve", solver.solve)
    cap = len(T) + 6
    excluded = set()      # chain mode: timings legitimately excluded so far (sequential model, as in C13)
    while True:
        if st == "exc":
            break
        if st == "unknown":
            acc.inconclusive.append("unknown during history")
            break
        if st == "false":
            missing = T - set(visited)
            acc.count(acc.clauses, f"C12.exhaustive:{'T' if not missing else 'F'}")
            if missing:
                acc.violation("C12.premature_failure", "lost", dict(feats, after=min(len(visited), 3)),
                              {"visited": len(visited), "reference": len(T), "missing_example": sorted(missing)[:2],
                               "history": ops[-6:]})
            break
        k = hist.key_of_sched(S)
        judge_visit(acc, spec, S)
        inT = k in T
        acc.count(acc.clauses, f"C12.in_reference_set:{'T' if inT else 'F'}")
        if not inT:
            acc.violation("C12.outside_reference_set", "admitted-invalid", feats, {"timing": k, "history": ops[-4:]})
        dup = k in visited
        acc.count(acc.clauses, f"C12.distinct:{'F' if dup else 'T'}")
        if dup:
            acc.violation("C12.returned_twice", "duplicate", feats, {"timing": k, "position": len(visited),
                                                                   "first_seen": visited.index(k)})
            break
        visited.append(k)
        if len(visited) > cap:
            acc.violation("C12.more_than_reference", "extra", feats, {"visited": len(visited), "reference": len(T)})
            break
        if mode == "another":
            st, S = step("find_another_solution", solver.find_another_solution)
        else:
            # chain mixing the two request kinds: the variable request must change the variable
            mandatory = [t["name"] for t in spec["tasks"] if not t.get("optional")]
            if rng.random() < 0.5 and mandatory:
                tn = rng.choice(mandatory)
                which = rng.choice(["start", "end"])
                var = b.tasks[tn]._start if which == "start" else b.tasks[tn]._end
                prev_S = S
                old = prev_S["hook"]["tasks"][tn][which]
                idx = 2 if which == "start" else 3
                excluded |= {kk for kk in T if dict((e[0], e[idx]) for e in kk)[tn] == old}
                st, S = step(f"for_variable({tn}.{which})", lambda: solver.find_another_solution_for_variable(var))
                if st == "sol":
                    new = S["hook"]["tasks"][tn][which]
                    acc.count(acc.clauses, f"C12.variable_changed:{'T' if old != new else 'F'}")
                    if old == new:
                        acc.violation("C12.variable_unchanged", "same", feats, {"task": tn, "which": which, "value": old})
            else:
                excluded.add(k)
                st, S = step("find_another_solution", solver.find_another_solution)
            if st == "sol":
                k2 = hist.key_of_sched(S)
                okx = k2 in (T - excluded)
                acc.count(acc.clauses, f"C12.chain_in_T_minus_excluded:{'T' if okx else 'F'}")
                if not okx and k2 in T:
                    acc.violation("C12.excluded_returned", "excluded-returned", feats, {"timing": k2, "history": ops[-4:]})
            elif st == "false":
                left = T - excluded
                acc.count(acc.clauses, f"C12.chain_failure_only_when_exhausted:{'T' if not left else 'F'}")
                if left:
                    acc.violation("C12.premature_failure", "lost", dict(feats, after=min(len(visited), 3)),
                                  {"remaining": len(left), "reference": len(T), "history": ops[-6:]})
                break
    if st == "false" and visited:
        # requests that FOLLOW a failed one: they fail too (or hand out a valid schedule not seen before), they neither
        # raise nor resurrect a schedule that was already returned
        followups = [("find_another_solution", solver.find_another_solution)]
        mand = [t["name"] for t in spec["tasks"] if not t.get("optional")]
        if mand:
            followups.append((f"for_variable({mand[0]}.end)",
                              lambda: solver.find_another_solution_for_variable(b.tasks[mand[0]]._end)))
        for name, fn in followups:
            st2, S2 = step(name + "@after_failure", fn)
            acc.count(acc.clauses, f"C12.request_after_failure:{'T' if st2 == 'false' else st2}")
            if st2 == "sol":
                k2 = hist.key_of_sched(S2)
                if k2 in visited or k2 not in T:
                    acc.violation("C12.returned_twice" if k2 in visited else "C12.outside_reference_set",
                                  "duplicate" if k2 in visited else "admitted-invalid", dict(feats, after_failure=True),
                                  {"timing": k2, "history": ops[-4:]})
            if st2 in ("exc", "unknown"):
                break
    acc.sigs.add(common.h([common.h(spec), mode, case.get("rng")]))
    acc.count(acc.outcomes, f"history_len>={min(len(visited), 5)}")
    acc.sample = {"spec_tasks": spec["tasks"], "reference_size": len(T), "visited": len(visited), "mode": mode,
                  "history_tail": ops[-5:], "first_visits": [list(map(list, v)) for v in visited[:3]]}
    res = acc.result({"history_len": len(visited), "reference_size": len(T)})
    return res


def generate(tier, seed):
    cases = []
    for name, spec in problems(tier):
        cases.append({"cid": f"exhaust-{name}", "family": "exhaustion", "kind": "hist", "spec": spec, "mode": "another"})
        cases.append({"cid": f"exhaust-rand-{name}", "family": "exhaustion-random", "kind": "hist", "spec": spec,
                      "mode": "another", "solver": {"random_values": True}})
        for j in range(3 if tier == "quick" else 12):
            cases.append({"cid": f"chain-{name}-{j}", "family": "mixed-chain", "kind": "hist", "spec": spec,
                          "mode": "chain", "rng": seed * 100 + j})
        if spec.get("objectives"):
            cases.append({"cid": f"exhaust-optimize-{name}", "family": "exhaustion-after-optimize", "kind": "hist",
                          "spec": spec, "mode": "another", "solver": {"optimizer": "optimize"}})
            cases.append({"cid": f"chain-optimize-{name}", "family": "exhaustion-after-optimize", "kind": "hist",
                          "spec": spec, "mode": "chain", "rng": seed, "solver": {"optimizer": "optimize"}})
    return cases


def run_case(case):
    return run_history(case)


def floors(tier):
    return {"distinct_nontrivial": 30, "C12.exhaustive:T": 12, "C12.distinct:T": 150, "C12.variable_changed:T": 10}


def shards(tier):
    return 48
