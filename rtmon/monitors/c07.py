"""C07 — optimisation returns a best schedule; early stops still return valid ones."""
import copy
import random
import re
import warnings

import z3

from . import common
from .. import build as bld
from .. import cands as cd
from .. import families as fam
from .. import instrument as ins
from .. import observe as obs
from .. import probe as pr
from .. import refsem as rs

import processscheduler as ps

PROPERTY = "C07"
PREFIXES = ("C07.",)
RULE = ("2-3-task problems x each built-in objective and user indicators (min/max) x weights x {incremental, optimize "
        "(lex, box, pareto first point, weight)}. Undisturbed run: the returned objective value (read from the solution and "
        "recomputed by definition on the reported schedule) must equal the reference optimum obtained two independent ways - "
        "brute force over the enumerated strong-valid set, and a fresh instance of the same problem asked for a strictly "
        "better value (must be unsat). Interrupted runs (fault injection): max_iter = 1..k+1, virtual-clock steps firing "
        "both time-based stops after each incumbent, forced `unknown` at each check: the returned schedule must pass the "
        "C01-C04/C09 clauses and be no worse than every incumbent the loop had found (incumbents read from the loop's own "
        "progress messages and the z3 trace). distinct = (spec, config, fault).")
ASSUMPTIONS = ["instances are small enough for z3 to finish; unknown without injected fault = inconclusive",
               "objective bounds= of user indicators are only an early-stop hint (band)"]
EXHAUSTIVE = {"quick": False, "thorough": False}

FOUND = re.compile(r"Found value: (-?\d+)")


def objective_value(spec, o, P):
    """definition of one objective on a plain schedule; None if not exactly defined"""
    k = o["kind"]
    tk = P["tasks"]
    if k == "Makespan":
        ends = [t["end"] for t in tk.values() if t["scheduled"]]
        return max(ends) if ends else None
    if k in ("Flowtime", "Priorities", "StartEarliest", "StartLatest", "GreatestStart"):
        _n, v = rs.objective_indicator_value(spec, o, P)
        return v
    if k in ("MinimizeIndicator", "MaximizeIndicator"):
        v = rs.indicator_value(spec, rs._ind_spec(spec, o["indicator"]), P)
        if v is None or isinstance(v, tuple):
            return None
        return v
    if k == "ResourceCost":
        v = rs.indicator_value(spec, {"kind": "ResourceCost", "resources": o["resources"]}, P)
        return None if isinstance(v, tuple) else v
    if k == "ResourceUtilization":
        v = rs.indicator_value(spec, {"kind": "Utilization", "resource": o["resource"]}, P)
        return None if (v is None or isinstance(v, tuple)) else v
    if k in ("MaximizeMaxBufferLevel", "MinimizeMaxBufferLevel"):
        return rs.indicator_value(spec, {"kind": "MaxBufferLevel", "buffer": o["buffer"]}, P)
    if k == "FlowtimeSingleResource":
        lo, hi = o.get("interval") or (0, P["horizon"])
        inside = [(s, e) for _t, s, e in P["busy"].get(o["resource"], []) if s >= lo and e <= hi]
        if not inside:
            return None
        return max(e for _s, e in inside) - min(s for s, _e in inside)
    return None


def nonlinear(spec):
    """the objective is a non-linear integer term (linear / polynomial cost functions integrate to products of unknowns)"""
    return any((w.get("cost") or {}).get("kind") in ("linear", "poly") for w in spec.get("workers", [])) and \
        any(o["kind"] == "ResourceCost" or o["kind"].endswith("Indicator") for o in spec.get("objectives", []))


def direction(o):
    k = o["kind"]
    if k in ("StartLatest", "ResourceUtilization", "MaximizeMaxBufferLevel", "MaximizeIndicator"):
        return "max"
    return "min"


def total_value(spec, P):
    tot = 0
    for o in spec["objectives"]:
        v = objective_value(spec, o, P)
        if v is None:
            return None
        tot += (o.get("weight") or 1) * v
    return tot


def reference_optimum(spec, limit=6000):
    """brute force over the enumerated strong-valid candidates"""
    s0 = dict(spec, objectives=[])
    if s0["problem"].get("horizon") is None:
        # enumeration needs a grid: any optimum of these micro problems lies below 8
        s0["problem"] = dict(s0["problem"], horizon=8)
    best, n = None, 0
    if cd.grid_size(s0, wide=False) > limit:
        return None, 0      # not enumerable: the fresh-instance re-ask is the only reference
    d = direction(spec["objectives"][0])
    for cand in cd.enumerate_candidates(s0, wide=False, limit=limit, rng=random.Random(0), dyn_wide=False):
        status, _rep = cd.classify(s0, cand)
        if status != "valid":
            if status == "band":
                return None, n     # a band candidate could be better: no reference
            continue
        n += 1
        P = rs.plain_from_candidate(s0, cand)
        v = total_value(spec, P)
        if v is None:
            return None, n
        if best is None or (v < best if d == "min" else v > best):
            best = v
    return best, n


def observed_value(spec, res, b):
    """objective value of a returned solution, read from the library's own report"""
    S = res["sched"]
    tot = 0
    for o, obj in zip(spec["objectives"], b.objectives):
        if o["kind"] == "Makespan":
            v = S["hook"]["horizon"] if spec["problem"].get("horizon") is not None else S["horizon"]
        else:
            tgt = obj.target
            name = getattr(tgt, "name", None)
            if name is None or name not in S["indicators"]:
                return None
            v = S["indicators"][name]
        tot += (o.get("weight") or 1) * v
    return tot


def better_exists(spec, value, d):
    """fresh instance of the same problem, objective removed, asked for a strictly better value"""
    ins.reset_case()
    with warnings.catch_warnings():
        warnings.simplefilter("ignore")
        b = bld.build(spec)
    objs = list(b.objectives)
    b.problem.objectives.clear()
    tot = z3.Sum([(o.get("weight") or 1) * obj._target for o, obj in zip(spec["objectives"], objs)])
    ps.ConstraintFromExpression(expression=(tot < value) if d == "min" else (tot > value))
    solver = ps.SchedulingSolver(problem=b.problem, max_time=30)
    sol = solver.solve()
    checks = ins.check_results()
    if sol:
        return "sat", obs.observe(b, sol, solver._model)
    return ("unsat" if checks and checks[-1] == "unsat" else "unknown"), None


def run_opt(case):
    acc = common.Acc(PREFIXES)
    spec, cfg = case["spec"], case["solver"]
    fault = case.get("fault") or {}
    d = direction(spec["objectives"][0])
    plan = {"solver": dict(cfg)}
    if fault.get("max_iter"):
        plan["solver"]["max_iter"] = fault["max_iter"]
    if fault.get("clock_step"):
        plan["clock_step"] = fault["clock_step"]
        plan["solver"]["max_time"] = fault.get("max_time", 10)
    if fault.get("unknown_at_check"):
        plan["unknown_at_check"] = fault["unknown_at_check"]
    if case.get("staged"):
        plan["staged"] = case["staged"]
    res = pr.run_solve(spec, plan, keep=True)
    acc.executions += 1
    out = res["outcome"]
    printed = " ".join(str(a) for args in ins.PRINTED for a in args)
    incumbents = [int(x) for x in FOUND.findall(printed)]
    checks = list(res["checks"])
    acc.count(acc.outcomes, f"{out}|{'fault' if fault else 'full'}")
    sig = common.h([common.h(spec), cfg, fault, case.get("staged")])
    multi_nonweighted = (len(spec["objectives"]) > 1 and cfg.get("optimizer") == "optimize"
                         and cfg.get("optimize_priority", "pareto") != "weight")
    if out in ("build_error", "exception"):
        acc.violation("C07.exception", "exception", {"exc": res["exc"].get("type"), "optimizer": cfg.get("optimizer"),
                                                     "fault": sorted(fault)},
                      {"exc": res["exc"]})
        acc.sigs.add(sig)
        return acc.result()
    if out != "sat":
        if fault.get("unknown_at_check") == 1 or (fault.get("max_iter") == 0):
            acc.count(acc.outcomes, "no_incumbent_before_fault")
            acc.sigs.add(sig)
            return acc.result()
        if out == "unsat":
            ref, nvalid = reference_optimum(spec)
            if nvalid:
                acc.violation("C07.infeasible_but_valid_exists", "rejected-valid", {"optimizer": cfg.get("optimizer")},
                              {"valid_candidates": nvalid})
            acc.sigs.add(sig)
            return acc.result()
        if fault.get("max_iter") and fault["max_iter"] >= 1 and not checks and not incumbents:
            # an iteration budget of at least one iteration, and the loop never asked z3 anything
            ref, nvalid = reference_optimum(spec)
            if nvalid:
                acc.violation("C07.no_iteration_run_within_budget", "lost", {"max_iter": fault["max_iter"]},
                              {"valid_candidates": nvalid})
                acc.sigs.add(sig)
                return acc.result()
        if fault:
            # an interrupted run that returns nothing although an incumbent existed (announced, or at least found:
            # a check() of the loop answered sat before the stop)
            if not incumbents and "sat" in checks and not fault.get("unknown_at_check"):
                acc.violation("C07.early_stop_lost_incumbent", "lost", {"fault": sorted(fault), "announced": False},
                              {"checks": checks})
                acc.sigs.add(sig)
                return acc.result()
            if incumbents:
                acc.violation("C07.early_stop_lost_incumbent", "lost", {"fault": sorted(fault)},
                              {"incumbents": incumbents, "checks": checks})
                acc.sigs.add(sig)
            return acc.result()
        acc.inconclusive.append(f"solver {out}")
        return acc.result()
    b = res["_built"]
    S = res["sched"]
    # validity of what came back (all soundness clauses; reported under C07)
    rep, P = rs.evaluate_observed(spec, S)
    acc.add_report(rep, "opt")
    bad = [(c, dd) for c, dd in rep.failed() if c.startswith(("C01.", "C02.", "C03.", "C04.", "C09."))]
    for c, dd in bad:
        acc.violation("C07.returned_invalid", "admitted-invalid", {"clause": c, "fault": sorted(fault)},
                      {"clause_detail": dd})
    got = observed_value(spec, res, b)
    defined = total_value(spec, P)
    acc.sigs.add(sig)
    if got is None:
        acc.inconclusive.append("objective value not readable")
        return acc.result()
    acc.sample = {"spec": spec, "solver": cfg, "fault": fault, "returned_value": got, "incumbents": incumbents,
                  "checks": checks}
    # the makespan objective minimises the horizon unknown, which is only an upper bound of the task ends until
    # the optimum is reached: after an early stop it legitimately exceeds max(end) (C11 only demands horizon >= ends)
    horizon_objective = any(o["kind"] == "Makespan" for o in spec["objectives"])
    if defined is not None and not multi_nonweighted and not (fault and horizon_objective):
        ok = abs(defined - got) < 1
        acc.count(acc.clauses, f"C07.value_eq_definition:{'T' if ok else 'F'}")
        if not ok:
            acc.violation("C07.value_ne_definition", "wrong-value", {"objective": spec["objectives"][0]["kind"]},
                          {"reported": got, "by_definition": defined})
    if cfg.get("optimizer", "incremental") == "incremental":
        # incumbents strictly improve and the returned value is the last one
        mono = all((b2 < a2) if d == "min" else (b2 > a2) for a2, b2 in zip(incumbents, incumbents[1:]))
        acc.count(acc.clauses, f"C07.incumbents_monotone:{'T' if mono else 'F'}")
        for thr in (1, 2, 3):
            if len(incumbents) >= thr:
                acc.count(acc.outcomes, f"incumbents>={thr}")
        if not mono:
            acc.violation("C07.incumbents_not_improving", "order", {"fault": sorted(fault)}, {"incumbents": incumbents})
        nsat = sum(1 for c in checks if c == "sat")
        if cfg.get("optimizer", "incremental") == "incremental" and incumbents and not fault.get("unknown_at_check"):
            # every schedule the loop finds is announced; one found (check() == sat) after the last announcement and
            # not returned is a better schedule that was dropped
            okn = nsat <= len(incumbents)
            acc.count(acc.clauses, f"C07.every_found_schedule_announced:{'T' if okn else 'F'}")
            if not okn:
                acc.violation("C07.returned_worse_than_found", "worse", {"fault": sorted(fault)},
                              {"sat_checks": nsat, "announced": incumbents, "returned": got})
        if incumbents:
            best = min(incumbents) if d == "min" else max(incumbents)
            okb = got == best and got == incumbents[-1]
            acc.count(acc.clauses, f"C07.returned_is_best_incumbent:{'T' if okb else 'F'}")
            if not okb:
                acc.violation("C07.returned_worse_than_incumbent", "worse", {"fault": sorted(fault)},
                              {"returned": got, "incumbents": incumbents})
    if fault or multi_nonweighted:
        return acc.result()
    # undisturbed: optimality, two independent references
    if cfg.get("optimizer", "incremental") == "incremental" and (not checks or checks[-1] != "unsat"):
        # loop stopped on its bound / time heuristics: optimality only claimed by the re-ask below
        acc.count(acc.outcomes, "loop_stopped_without_unsat")
    ref, nvalid = reference_optimum(spec)
    if ref is not None:
        ok = abs(ref - got) < 1
        acc.count(acc.clauses, f"C07.optimum_eq_bruteforce:{'T' if ok else 'F'}")
        if not ok:
            acc.violation("C07.not_optimal_bruteforce", "suboptimal" if ((got > ref) if d == "min" else (got < ref))
                          else "better-than-any-valid",
                          {"objective": "+".join(o["kind"] for o in spec["objectives"]),
                           "optimizer": cfg.get("optimizer", "incremental"), "priority": cfg.get("optimize_priority"),
                           "has_buffer": bool(spec.get("buffers")), "nonlinear_objective": nonlinear(spec)},
                          {"returned": got, "reference": ref, "valid_candidates": nvalid})
    else:
        acc.count(acc.clauses, "C07.optimum_eq_bruteforce:B")
    ans, better = better_exists(spec, got, d)
    acc.executions += 1
    acc.count(acc.clauses, f"C07.no_better_in_fresh_instance:{ans}")
    if ans == "sat":
        acc.violation("C07.better_schedule_exists", "suboptimal",
                      {"objective": "+".join(o["kind"] for o in spec["objectives"]),
                       "optimizer": cfg.get("optimizer", "incremental"), "priority": cfg.get("optimize_priority"),
                       "has_buffer": bool(spec.get("buffers")), "nonlinear_objective": nonlinear(spec)},
                      {"returned": got, "better_schedule": {n: [t["scheduled"], t["start"], t["end"]]
                                                            for n, t in better["tasks"].items()},
                       "better_indicators": better["indicators"]})
    return acc.result()


def specs(tier):
    out = []
    W = [{"name": "w0"}]
    t3 = lambda: [fam.fx("t0", 2, priority=3), fam.vr("t1", 1, 2, priority=1), fam.fx("t2", 1, priority=2)]  # noqa
    on = [{"task": "t0", "resource": "w0"}, {"task": "t1", "resource": "w0"}, {"task": "t2", "resource": "w0"}]
    away = [{"id": "a", "kind": "TaskStartAfter", "task": "t0", "value": 1, "mode": "lax"}]
    for okind in ("Makespan", "Flowtime", "Priorities", "StartEarliest", "StartLatest", "GreatestStart"):
        out.append((okind, fam.base(6, t3(), workers=W, requirements=on, constraints=away,
                                    objectives=[{"kind": okind}])))
    out.append(("FlowtimeSingleResource", fam.base(7, t3(), workers=W, requirements=on, constraints=[
        {"id": "a", "kind": "TaskStartAfter", "task": "t2", "value": 2, "mode": "lax"}],
        objectives=[{"kind": "FlowtimeSingleResource", "resource": "w0"}])))
    out.append(("FlowtimeSingleResource.interval", fam.base(8, t3(), workers=W, requirements=on, constraints=[
        {"id": "a", "kind": "TaskStartAfter", "task": "t2", "value": 2, "mode": "lax"},
        {"id": "b", "kind": "TaskEndBefore", "task": "t1", "value": 7, "mode": "lax"}],
        objectives=[{"kind": "FlowtimeSingleResource", "resource": "w0", "interval": [1, 7]}])))
    # objectives over optional tasks: an unscheduled task contributes nothing, scheduling is forced for one of them
    t3o = lambda: [fam.fx("t0", 2, priority=3), fam.vr("t1", 1, 2, priority=1, optional=True),  # noqa
                   fam.fx("t2", 1, priority=2, optional=True)]
    for okind in ("Flowtime", "Priorities", "StartEarliest", "StartLatest"):
        out.append((f"{okind}.optional", fam.base(6, t3o(), workers=W, requirements=on, constraints=away + [
            {"id": "f", "kind": "ForceScheduleNOptionalTasks", "tasks": ["t1", "t2"], "n": 1, "mode": "min"}],
            objectives=[{"kind": okind}])))
    out.append(("Makespan.nohorizon", dict(fam.base(6, t3(), workers=W, requirements=on, constraints=away,
                                                    objectives=[{"kind": "Makespan"}]), problem={"name": "P"})))
    out.append(("ResourceUtilization", fam.base(5, [fam.vr("t0", 1, 3), fam.fx("t1", 1)], workers=W,
                                                requirements=on[:2], objectives=[{"kind": "ResourceUtilization",
                                                                                  "resource": "w0"}])))
    for ctag, cost in (("const", {"kind": "const", "value": 3}), ("linear", {"kind": "linear", "slope": 2, "intercept": 1})):
        out.append((f"ResourceCost.{ctag}", fam.base(5, [fam.vr("t0", 1, 3), fam.fx("t1", 2)], workers=[
            {"name": "w0", "cost": cost}, {"name": "w1", "cost": {"kind": "const", "value": 2}}],
            selections=[{"id": "s0", "workers": ["w0", "w1"], "n": 1, "kind": "exact"}],
            requirements=[{"task": "t0", "resource": "s0"}, {"task": "t1", "resource": "w0"}],
            constraints=[{"id": "a", "kind": "TaskStartAfter", "task": "t1", "value": 1, "mode": "lax"}],
            objectives=[{"kind": "ResourceCost", "resources": ["w0", "w1"]}])))
    # a cost over SEVERAL resources with time-dependent costs against a slightly cheaper constant alternative
    lin = {"kind": "linear", "slope": 1, "intercept": 2}
    out.append(("ResourceCost.four_linear_vs_constant", fam.base(
        1, [fam.fx("crew", 1, optional=True), fam.fx("robot", 1, optional=True)],
        workers=[{"name": f"a{i}", "cost": dict(lin)} for i in range(4)] + [{"name": "r", "cost": {"kind": "const", "value": 9}}],
        requirements=[{"task": "crew", "resource": f"a{i}"} for i in range(4)] + [{"task": "robot", "resource": "r"}],
        constraints=[{"id": "f", "kind": "ForceScheduleNOptionalTasks", "tasks": ["crew", "robot"], "n": 1, "mode": "exact"}],
        objectives=[{"kind": "ResourceCost", "resources": ["a0", "a1", "a2", "a3", "r"]}])))
    for okind in ("MaximizeMaxBufferLevel", "MinimizeMaxBufferLevel"):
        out.append((okind, fam.base(5, [fam.fx("t0", 2), fam.fx("t1", 1), fam.fx("t2", 1)], buffers=[
            {"name": "bf", "initial": 1, "lower": 0}], constraints=[
            {"id": "u0", "kind": "TaskUnloadBuffer", "task": "t0", "buffer": "bf", "quantity": 1},
            {"id": "l1", "kind": "TaskLoadBuffer", "task": "t1", "buffer": "bf", "quantity": 2},
            {"id": "l2", "kind": "TaskLoadBuffer", "task": "t2", "buffer": "bf", "quantity": 1}],
            objectives=[{"kind": okind, "buffer": "bf"}])))
    # user indicators, min and max, the first model far from the optimum
    exprs = [("end_t1", ["end", "t1"]), ("gap", ["-", ["start", "t1"], ["end", "t0"]]),
             ("dur_plus", ["+", ["duration", "t1"], ["start", "t0"]])]
    for ename, e in exprs:
        for okind in ("MinimizeIndicator", "MaximizeIndicator"):
            out.append((f"user.{ename}.{okind}", fam.base(7, [fam.fx("t0", 2), fam.vr("t1", 1, 3)], workers=W,
                                                          requirements=on[:2],
                                                          indicators=[{"id": "i", "kind": "FromExpr", "name": ename,
                                                                       "expr": e}],
                                                          objectives=[{"kind": okind, "indicator": "i", "weight": 1}])))
    # bounded user indicators: bounds equal to the true range, first model sitting on either bound
    for ename, e in (("start_t1", ["start", "t1"]), ("rev_start_t1", ["-", 6, ["start", "t1"]])):
        for okind in ("MinimizeIndicator", "MaximizeIndicator"):
            out.append((f"bounded.{ename}.{okind}", fam.base(7, [fam.fx("t0", 2), fam.vr("t1", 1, 3)],
                                                             indicators=[{"id": "i", "kind": "FromExpr", "name": ename,
                                                                          "expr": e, "bounds": [0, 6]}],
                                                             objectives=[{"kind": okind, "indicator": "i", "weight": 1}])))
    # the optimum sits ON the far bound of the declared range (a pin leaves one value only): the best value of a
    # maximisation equals the lower bound, the one of a minimisation the upper bound
    for okind, pin in (("MaximizeIndicator", 0), ("MinimizeIndicator", 6)):
        out.append((f"bounded.pinned_on_far_bound.{okind}", fam.base(
            8, [fam.fx("t0", 2), fam.vr("t1", 1, 2)], indicators=[
                {"id": "i", "kind": "FromExpr", "name": "start_t1", "expr": ["start", "t1"], "bounds": [0, 6]}],
            constraints=[{"id": "p", "kind": "TaskStartAt", "task": "t1", "value": pin}],
            objectives=[{"kind": okind, "indicator": "i", "weight": 1}])))
    out.append(("ResourceUtilization.unusable", fam.base(
        4, [fam.fx("t0", 2)], workers=[{"name": "w0"}, {"name": "w1"}],
        selections=[{"id": "s0", "workers": ["w0", "w1"], "n": 1, "kind": "exact"}],
        requirements=[{"task": "t0", "resource": "s0"}],
        constraints=[{"id": "u", "kind": "ResourceUnavailable", "resource": "w0", "intervals": [[0, 4]]}],
        objectives=[{"kind": "ResourceUtilization", "resource": "w0"}])))
    # tardiness with non-deadline due dates
    out.append(("user.tardiness", fam.base(7, [fam.fx("t0", 3, due_date=3, due_date_is_deadline=False),
                                               fam.fx("t1", 2, due_date=2, due_date_is_deadline=False)], workers=W,
                                           requirements=on[:2], indicators=[{"id": "i", "kind": "Tardiness"}],
                                           objectives=[{"kind": "MinimizeIndicator", "indicator": "i", "weight": 1}])))
    # two weighted objectives of the same direction
    for w1, w2 in ((1, 1), (3, 1), (1, 4)):
        out.append((f"weighted.min.{w1}.{w2}", fam.base(6, [fam.fx("t0", 2), fam.fx("t1", 1)], workers=W,
                                                        requirements=on[:2], indicators=[
            {"id": "i", "kind": "FromExpr", "name": "s0", "expr": ["start", "t0"]},
            {"id": "j", "kind": "FromExpr", "name": "s1", "expr": ["start", "t1"]}],
            constraints=[{"id": "a", "kind": "TaskStartAfter", "task": "t1", "value": 1, "mode": "lax"}],
            objectives=[{"kind": "MinimizeIndicator", "indicator": "i", "weight": w1},
                        {"kind": "MinimizeIndicator", "indicator": "j", "weight": w2}])))
        out.append((f"weighted.max.{w1}.{w2}", fam.base(6, [fam.fx("t0", 2), fam.fx("t1", 1)], workers=W,
                                                        requirements=on[:2], indicators=[
            {"id": "i", "kind": "FromExpr", "name": "e0", "expr": ["end", "t0"]},
            {"id": "j", "kind": "FromExpr", "name": "s1", "expr": ["start", "t1"]}],
            objectives=[{"kind": "MaximizeIndicator", "indicator": "i", "weight": w1},
                        {"kind": "MaximizeIndicator", "indicator": "j", "weight": w2}])))
    # objectives given a task LIST that is a strict subset of the tasks, an unlisted task pulling the other way
    t3l = lambda: [fam.fx("t0", 2), fam.fx("t1", 1), fam.fx("t2", 1)]  # noqa
    for okind, pin in (("StartLatest", {"id": "p", "kind": "TaskStartAt", "task": "t2", "value": 0}),
                       ("GreatestStart", {"id": "p", "kind": "TaskStartAt", "task": "t2", "value": 5}),
                       ("Flowtime", {"id": "p", "kind": "TaskStartAt", "task": "t2", "value": 0})):
        for lst in (["t0", "t1"], ["t1"]):
            out.append((f"{okind}.listed.{len(lst)}", fam.base(6, t3l(), workers=W, requirements=on, constraints=[pin],
                                                             objectives=[{"kind": okind, "tasks": lst}])))
    # three weighted objectives, the third pulling against the first two (dropping it changes the optimum)
    for w in ((1, 1, 3), (2, 1, 1)):
        out.append((f"weighted3.min.{'.'.join(map(str, w))}", fam.base(6, [fam.fx("t0", 2), fam.fx("t1", 1)], workers=W,
                                                                      requirements=on[:2], indicators=[
            {"id": "i", "kind": "FromExpr", "name": "s0", "expr": ["start", "t0"]},
            {"id": "j", "kind": "FromExpr", "name": "s1", "expr": ["start", "t1"]},
            {"id": "k", "kind": "FromExpr", "name": "gap", "expr": ["-", 6, ["end", "t0"]]}],
            objectives=[{"kind": "MinimizeIndicator", "indicator": "i", "weight": w[0]},
                        {"kind": "MinimizeIndicator", "indicator": "j", "weight": w[1]},
                        {"kind": "MinimizeIndicator", "indicator": "k", "weight": w[2]}])))
        out.append((f"weighted3.max.{'.'.join(map(str, w))}", fam.base(6, [fam.fx("t0", 2), fam.fx("t1", 1)], workers=W,
                                                                      requirements=on[:2], indicators=[
            {"id": "i", "kind": "FromExpr", "name": "e0", "expr": ["end", "t0"]},
            {"id": "j", "kind": "FromExpr", "name": "s1", "expr": ["start", "t1"]},
            {"id": "k", "kind": "FromExpr", "name": "gap", "expr": ["-", 6, ["start", "t0"]]}],
            objectives=[{"kind": "MaximizeIndicator", "indicator": "i", "weight": w[0]},
                        {"kind": "MaximizeIndicator", "indicator": "j", "weight": w[1]},
                        {"kind": "MaximizeIndicator", "indicator": "k", "weight": w[2]}])))
    return out


def random_specs(tier, seed):
    """larger random compositions with one objective (thorough tier)"""
    from .. import gen
    out = []
    n = 0 if tier == "quick" else 160
    i = 0
    while len(out) < n:
        r = random.Random(f"{seed}-c07-rand-{i}")
        i += 1
        spec = gen.random_spec(r, H=r.randint(8, 14), n_tasks=r.randint(3, 5), profile={"buffers": 0.0, "optional": 0.15})
        names = [t["name"] for t in spec["tasks"]]
        k = r.choice(["Makespan", "Flowtime", "Priorities", "StartEarliest", "GreatestStart", "user_min", "user_max"])
        if k.startswith("user"):
            mand = [t["name"] for t in spec["tasks"] if not t.get("optional")]
            if len(mand) < 1:
                continue
            e = ["+", ["end", mand[0]], ["start", mand[-1]]]
            spec["indicators"] = [{"id": "i", "kind": "FromExpr", "name": "qq", "expr": e}]
            spec["objectives"] = [{"kind": "MinimizeIndicator" if k == "user_min" else "MaximizeIndicator",
                                   "indicator": "i", "weight": 1}]
        else:
            spec["objectives"] = [{"kind": k}]
        out.append((f"rand{i}.{k}", spec))
    return out


def generate(tier, seed):
    cases = []
    for name, spec in specs(tier) + random_specs(tier, seed):
        multi = len(spec["objectives"]) > 1
        cfgs = [{"optimizer": "incremental"}, {"optimizer": "optimize", "optimize_priority": "lex"},
                {"optimizer": "optimize", "optimize_priority": "weight"}]
        if tier != "quick" or multi:
            cfgs += [{"optimizer": "optimize", "optimize_priority": "box"},
                     {"optimizer": "optimize", "optimize_priority": "pareto"}]
        for ci, cfg in enumerate(cfgs):
            cases.append({"cid": f"full-{name}-{ci}", "family": "undisturbed", "kind": "c07", "spec": spec,
                          "solver": dict(cfg, max_time=30)})
        # the same problem object declared in two stages with a complete solve in between (every split point, the
        # warm-up through either optimiser): what an earlier solver left on the problem must not change the optimum
        if multi:
            for first in range(1, len(spec["objectives"]) + 1):
                for wi, warm in enumerate(({"optimizer": "incremental"},
                                           {"optimizer": "optimize", "optimize_priority": "weight"})):
                    if first == 1 and wi == 1:
                        continue
                    for ci, cfg in enumerate((cfgs[0], cfgs[2])):
                        cases.append({"cid": f"staged-{name}-{first}-{wi}-{ci}", "family": "staged", "kind": "c07",
                                      "spec": spec, "solver": dict(cfg, max_time=30),
                                      "staged": {"first": first, "solver": dict(warm, max_time=30)}})
        # interruption points of the incremental loop
        maxk = 6 if tier == "quick" else 12
        for k in range(1, maxk + 1):
            cases.append({"cid": f"maxiter-{name}-{k}", "family": "max_iter", "kind": "c07", "spec": spec,
                          "solver": {"optimizer": "incremental", "max_time": 30}, "fault": {"max_iter": k}})
        for step, mt in ((1.0, 2.5), (1.0, 4.5), (0.5, 3.2), (2.0, 1.0), (1.0, 7.5)):
            cases.append({"cid": f"clock-{name}-{step}-{mt}", "family": "virtual_clock", "kind": "c07", "spec": spec,
                          "solver": {"optimizer": "incremental"}, "fault": {"clock_step": step, "max_time": mt}})
        for j in range(1, (5 if tier == "quick" else 10)):
            cases.append({"cid": f"unknown-{name}-{j}", "family": "forced_unknown", "kind": "c07", "spec": spec,
                          "solver": {"optimizer": "incremental", "max_time": 30}, "fault": {"unknown_at_check": j}})
    return cases


def run_case(case):
    return run_opt(case)


def floors(tier):
    return {"distinct_nontrivial": 300, "C07.no_better_in_fresh_instance:unsat": 50,
            "C07.optimum_eq_bruteforce:T": 40, "C07.returned_is_best_incumbent:T": 200, "incumbents>=2": 150,
            "fault.forced_unknown": 50}


def shards(tier):
    return 64
