"""C14 — meaning is independent of names, declaration order and earlier problems."""
import copy
import itertools
import json
import os
import random
import subprocess
import sys
import tempfile
import warnings

from . import common, hist, c07
from .. import build as bld
from .. import gen
from .. import families as fam
from .. import instrument as ins
from .. import probe as pr

import processscheduler as ps

PROPERTY = "C14"
PREFIXES = ("C14.",)
RULE = ("metamorphic twins judged by fresh solver instances only (no reference semantics): a Spec S and a twin S' "
        "(consistent renaming with names that are prefixes/suffixes of one another, digits, unicode, spaces; or a "
        "permutation inside a declaration stage: tasks, workers, requirements, constraints, indicators) must agree on "
        "the feasibility verdict, the optimum, and the admit() verdict of every timing candidate of a shared sample "
        "(translated through the renaming). History independence: the signature (verdict, optimum, admit vector) of S "
        "computed in a FRESH interpreter must equal the one computed after a prefix of other problems built/solved/"
        "abandoned in the same process (same names, other names, debug/parallel/random/max_time settings, failed "
        "constructors, half-built problems). distinct = (spec, twin kind | prefix kind).")
ASSUMPTIONS = ["collision-free names: distinct per element kind and not of the form <cumulative>_CumulativeWorker_<i>"]
EXHAUSTIVE = {"quick": False, "thorough": False}

NASTY = ["t", "t_", "t_start", "T0", "é1", "1", "a b", "t_end", "x_busy", "Indicator_q", "horizon"]


def admit_vector(spec, cands, extra=None):
    s0 = dict(spec, objectives=[])
    out = []
    for c in cands:
        res = pr.run_solve(s0, dict({"pins": pr.candidate_pins(s0, c, pin_selections=False, pin_dynamic=False)},
                                    **(extra or {})))
        out.append(res["outcome"] if res["outcome"] in ("sat", "unsat") else "other:" + res["outcome"])
    return out


def signature(spec, cands, extra=None):
    sig = {}
    res = pr.run_solve(spec, dict({"solver": {"max_time": 30}}, **(extra or {})), keep=True)
    sig["verdict"] = res["outcome"]
    if res["outcome"] in ("exception", "build_error"):
        sig["exc"] = (res.get("exc") or {}).get("type")
    sig["optimum"] = None
    if res["outcome"] == "sat" and spec.get("objectives"):
        sig["optimum"] = c07.observed_value(spec, res, res["_built"])
    sig["admits"] = admit_vector(spec, cands[:4] if extra else cands, extra)
    return sig


def sample_cands(spec, n, rng):
    grid = list(hist.timing_grid(dict(spec, objectives=[])))
    if len(grid) > n:
        grid = rng.sample(grid, n)
    return grid


def rename_cand(c, mapping):
    c2 = copy.deepcopy(c)
    c2["tasks"] = {mapping.get(n, n): t for n, t in c["tasks"].items()}
    return c2


def permuted(spec, rng):
    s = copy.deepcopy(spec)
    for key in ("tasks", "workers", "requirements", "constraints", "indicators", "buffers", "cumulative", "selections",
                "objectives"):
        if len(s.get(key, [])) > 1:
            before = list(s[key])
            for _ in range(6):          # a permutation that IS one (two-element lists are swapped)
                rng.shuffle(s[key])
                if s[key] != before:
                    break

    def shuffle_commutative(c):
        # operand order of the commutative connectives is a declaration order too
        if isinstance(c, dict):
            if c.get("kind") in ("And", "Or") and len(c.get("args", [])) > 1:
                rng.shuffle(c["args"])
            for v in c.values():
                if isinstance(v, (dict, list)):
                    shuffle_commutative(v)
        elif isinstance(c, list):
            for v in c:
                shuffle_commutative(v)

    shuffle_commutative(s.get("constraints", []))
    return s


def renamed(spec, rng):
    names = [t["name"] for t in spec["tasks"]]
    pool = rng.sample(NASTY, len(names))
    mapping = dict(zip(names, pool))
    wnames = [w["name"] for w in spec.get("workers", [])]
    wpool = rng.sample(["w", "w_", "w_busy", "W0", "ü", "t_busy", "2"], len(wnames))
    mapping.update(dict(zip(wnames, wpool)))
    bn = [b["name"] for b in spec.get("buffers", [])]
    mapping.update(dict(zip(bn, rng.sample(["b", "buf fer", "b_level", "b1", "b11"], len(bn)))))
    cn = [c["name"] for c in spec.get("cumulative", [])]
    mapping.update(dict(zip(cn, rng.sample(["c", "cum_1", "C", "c1"], len(cn)))))
    return gen.rename(spec, mapping), mapping


def concat_mapping(spec):
    """Collision-free names chosen so that `name + numeric parameters` of two items of the same kind on two different
    resources (or tasks) read the same once concatenated without a separator: M1 + (2, 4) and M + (1, 24)."""
    def digits(item):
        out = []

        def walk(v):
            if isinstance(v, bool):
                return
            if isinstance(v, int):
                out.append(str(v))
            elif isinstance(v, list):
                for x in v:
                    walk(x)
        for k in ("interval", "intervals", "map", "value", "distance", "period", "offset"):
            if item.get(k) is not None:
                walk(item[k])
        return "".join(out)

    mapping = {}
    for ref, stem in (("resource", "M"), ("task", "K")):
        items = []
        for key in ("constraints", "objectives", "indicators"):
            for it in spec.get(key, []):
                if isinstance(it.get(ref), str):
                    items.append((key, it["kind"], it[ref], digits(it)))
        for a, b in itertools.permutations(items, 2):
            if a[:2] == b[:2] and a[2] != b[2] and a[3] and b[3].endswith(a[3]) and len(b[3]) > len(a[3]):
                mapping.update({a[2]: stem + b[3][:-len(a[3])], b[2]: stem})
                break
    return mapping or None


def collision_specs():
    """two resources carrying the same kind of item whose numeric parameters are suffixes of one another"""
    W = [{"name": "w0"}, {"name": "w1"}]
    T = [fam.fx("a", 3), fam.fx("b", 2), fam.fx("c", 4)]
    on = [{"task": "a", "resource": "w0"}, {"task": "b", "resource": "w0"}, {"task": "c", "resource": "w1"}]
    pins = [{"id": "pa", "kind": "TaskStartAt", "task": "a", "value": 10},
            {"id": "pc", "kind": "TaskStartAt", "task": "c", "value": 0}]
    out = []
    out.append(fam.base(24, [dict(t) for t in T], workers=W, requirements=on, constraints=pins, objectives=[
        {"kind": "FlowtimeSingleResource", "resource": "w0", "interval": [10, 20]},
        {"kind": "FlowtimeSingleResource", "resource": "w1", "interval": [0, 20]}]))
    out.append(fam.base(25, [dict(t) for t in T], workers=W, requirements=on, constraints=[
        {"id": "u0", "kind": "ResourceUnavailable", "resource": "w0", "intervals": [[2, 4]]},
        {"id": "u1", "kind": "ResourceUnavailable", "resource": "w1", "intervals": [[1, 24]]}]))
    out.append(fam.base(25, [dict(t) for t in T], workers=W, requirements=on, constraints=[
        {"id": "l0", "kind": "WorkLoad", "resource": "w0", "map": [[2, 4, 1]], "mode": "max"},
        {"id": "l1", "kind": "WorkLoad", "resource": "w1", "map": [[1, 24, 1]], "mode": "max"}]))
    out.append(fam.base(25, [dict(t) for t in T], workers=W, requirements=on, constraints=[
        {"id": "s0", "kind": "TaskStartAfter", "task": "b", "value": 2, "mode": "lax"},
        {"id": "s1", "kind": "TaskStartAfter", "task": "c", "value": 12, "mode": "lax"}]))
    for sp in out:
        for c in sp["constraints"]:
            c["name"] = c["id"]
    return out


def run_twins(case):
    acc = common.Acc(PREFIXES)
    spec = case["spec"]
    rng = random.Random(case["rng"])
    cands = sample_cands(spec, case["ncand"], rng)
    base = signature(spec, cands)
    acc.executions += 1 + len(cands)
    for ti in range(case["ntwins"]):
        kind = "rename" if ti % 2 == 0 else "permute"
        cm = concat_mapping(spec) if ti == 0 else None
        if cm:
            kind = "rename-concat"
            twin, mapping = gen.rename(spec, cm), cm
            tc = [rename_cand(c, mapping) for c in cands]
        elif kind == "rename":
            twin, mapping = renamed(spec, rng)
            tc = [rename_cand(c, mapping) for c in cands]
        else:
            twin, mapping = permuted(spec, rng), {}
            tc = cands
        sig = signature(twin, tc)
        acc.executions += 1 + len(cands)
        acc.sigs.add(common.h([common.h(spec), kind, ti, case["rng"]]))
        feats = {"twin": kind, "kinds": sorted(common.kinds_in(spec))[:6],
                 "any_optional": any(t.get("optional") for t in spec["tasks"])}
        ok = True
        if sig["verdict"] != base["verdict"]:
            ok = False
            acc.violation("C14.verdict_differs", "differs", dict(feats, base=base["verdict"], twin_verdict=sig["verdict"],
                                                                   exc=sig.get("exc") or base.get("exc")),
                          {"twin": twin, "mapping": mapping})
        elif sig["optimum"] != base["optimum"]:
            ok = False
            acc.violation("C14.optimum_differs", "differs", feats, {"base": base["optimum"], "twin_opt": sig["optimum"],
                                                                    "twin": twin, "mapping": mapping})
        diff = [i for i, (a, b) in enumerate(zip(base["admits"], sig["admits"])) if a != b]
        if diff:
            ok = False
            acc.violation("C14.admit_differs", "differs", feats,
                          {"candidate": cands[diff[0]], "base": base["admits"][diff[0]], "twin_admit": sig["admits"][diff[0]],
                           "twin": twin, "mapping": mapping})
        acc.count(acc.clauses, f"C14.twin.{kind}:{'T' if ok else 'F'}")
    # the same problem declared in two halves, another (multi-objective) problem being solved in between
    for wi, warm in enumerate(({"optimizer": "incremental"}, {"optimizer": "optimize", "optimize_priority": "weight"})):
        if wi == 1 and case["rng"] % 2:
            continue
        sig = signature(spec, cands, {"interleaved": warm})
        acc.executions += 1 + min(len(cands), 4)
        acc.sigs.add(common.h([common.h(spec), "interleaved", wi, case["rng"]]))
        same = (sig["verdict"] == base["verdict"] and sig["optimum"] == base["optimum"]
                and sig["admits"] == base["admits"][:len(sig["admits"])])
        acc.count(acc.clauses, f"C14.twin.interleaved:{'T' if same else 'F'}")
        if not same:
            acc.violation("C14.history_dependence", "interleaved-solve",
                          {"prefix": "interleaved", "what": "verdict" if sig["verdict"] != base["verdict"] else
                           ("optimum" if sig["optimum"] != base["optimum"] else "admits"),
                           "kinds": sorted(common.kinds_in(spec))[:6]},
                          {"base": {k: base[k] for k in ("verdict", "optimum")},
                           "interleaved": {k: sig[k] for k in ("verdict", "optimum")}, "warm": warm})
    acc.count(acc.outcomes, f"base:{base['verdict']}")
    acc.sample = {"spec": spec, "signature": {"verdict": base["verdict"], "optimum": base["optimum"],
                                              "admits": base["admits"][:10]}}
    return acc.result()


# ---------------------------------------------------------------------------
# history independence
# ---------------------------------------------------------------------------
def nasty_prefix(kind, spec, rng):
    """build / solve / abandon other problems in this very process"""
    with warnings.catch_warnings():
        warnings.simplefilter("ignore")
        if kind == "same_names_solved":
            for cfg in ({}, {"debug": True}, {"random_values": True}, {"parallel": True}, {"max_time": 1}):
                other = copy.deepcopy(spec)
                other["problem"]["horizon"] = (spec["problem"].get("horizon") or 6) + 2
                for t in other["tasks"]:
                    if t["type"] == "Fixed":
                        t["duration"] += 1
                try:
                    b = bld.build(other)
                    ps.SchedulingSolver(problem=b.problem, **cfg).solve()
                except Exception:  # pylint: disable=broad-except
                    pass
        elif kind == "other_names_many":
            for i in range(12):
                r = random.Random(f"prefix-{i}-{rng.random()}")
                s2 = gen.random_spec(r, n_tasks=r.randint(2, 4))
                s2 = gen.rename(s2, {t["name"]: f"p{i}_{t['name']}" for t in s2["tasks"]})
                try:
                    b = bld.build(s2)
                    sv = ps.SchedulingSolver(problem=b.problem, max_time=5,
                                             optimizer=r.choice(["incremental", "optimize"]))
                    sol = sv.solve()
                    if sol and r.random() < 0.5:
                        sv.find_another_solution()
                except Exception:  # pylint: disable=broad-except
                    pass
        elif kind == "half_built":
            try:
                ps.SchedulingProblem(name="abandoned", horizon=3)
                ps.FixedDurationTask(name=spec["tasks"][0]["name"], duration=9)
                ps.Worker(name="w0", productivity=7)
                ps.NonConcurrentBuffer(name="bf", initial_level=99)
            except Exception:  # pylint: disable=broad-except
                pass
        elif kind == "failed_constructors":
            ps.SchedulingProblem(name="failing", horizon=4)
            for fn in (lambda: ps.FixedDurationTask(name="x", duration=-1),
                       lambda: ps.FixedDurationTask(name="dup", duration=1),
                       lambda: ps.FixedDurationTask(name="dup", duration=1),
                       lambda: ps.SelectWorkers(list_of_workers=[], nb_workers_to_select=1),
                       lambda: ps.CumulativeWorker(name="c", size=1),
                       lambda: ps.ResourceUnavailable(resource=ps.Worker(name="lonely"), list_of_time_intervals=[(0, 1)])):
                try:
                    fn()
                except Exception:  # pylint: disable=broad-except
                    pass
        elif kind == "same_constraint_names_as_operands":
            # an earlier problem uses constraints with the SAME explicit names inside connectives
            ps.SchedulingProblem(name="earlier", horizon=6)
            x = ps.FixedDurationTask(name="x", duration=1)
            y = ps.FixedDurationTask(name="y", duration=2)
            names = [c.get("name") for c in spec.get("constraints", []) if c.get("name")] or ["c0"]
            ops = []
            for i, nm in enumerate(names):
                ops.append(ps.TaskStartAt(name=nm, task=x if i % 2 else y, value=i % 3))
            try:
                ps.Not(constraint=ops[0])
                if len(ops) > 1:
                    ps.Or(list_of_constraints=ops[1:])
                ps.SchedulingSolver(problem=processscheduler_base().active_problem, max_time=5).solve()
            except Exception:  # pylint: disable=broad-except
                pass
        elif kind == "multi_objective_solved":
            s2 = fam.base(5, [fam.fx("t0", 2), fam.fx("t1", 1)], indicators=[
                {"id": "i", "kind": "FromExpr", "name": "s0", "expr": ["start", "t0"]},
                {"id": "j", "kind": "FromExpr", "name": "e1", "expr": ["end", "t1"]}], objectives=[
                {"kind": "MaximizeIndicator", "indicator": "i", "weight": 1},
                {"kind": "MaximizeIndicator", "indicator": "j", "weight": 2}])
            try:
                b = bld.build(s2)
                ps.SchedulingSolver(problem=b.problem).solve()
                ps.SchedulingSolver(problem=b.problem, optimizer="optimize", optimize_priority="lex").solve()
            except Exception:  # pylint: disable=broad-except
                pass


def processscheduler_base():
    import processscheduler.base as pb
    return pb


PREFIX_KINDS = ["same_constraint_names_as_operands", "same_names_solved", "other_names_many", "half_built", "failed_constructors", "multi_objective_solved"]


def fresh_signature(spec, cands):
    root = os.path.dirname(os.path.dirname(os.path.dirname(os.path.abspath(__file__))))
    with tempfile.TemporaryDirectory(prefix="rtmon_c14_") as d:
        job = os.path.join(d, "job.json")
        with open(job, "w") as f:
            json.dump({"spec": spec, "cands": cands}, f)
        env = dict(os.environ)
        env["PYTHONPATH"] = root + (os.pathsep + env["PYTHONPATH"] if env.get("PYTHONPATH") else "")
        p = subprocess.run([sys.executable, "-m", "rtmon.oneshot", job], capture_output=True, text=True, timeout=600,
                           env=env, cwd=d)
        for line in p.stdout.splitlines():
            if line.startswith("SIGNATURE "):
                return json.loads(line[len("SIGNATURE "):])
        raise RuntimeError("fresh process failed: " + p.stderr[-400:])


def run_prefix(case):
    acc = common.Acc(PREFIXES)
    spec = case["spec"]
    rng = random.Random(case["rng"])
    cands = sample_cands(spec, case["ncand"], rng)
    try:
        fresh = fresh_signature(spec, cands)
    except Exception as exc:  # pylint: disable=broad-except
        acc.inconclusive.append(f"fresh process: {exc}"[:150])
        return acc.result()
    acc.executions += 1 + len(cands)
    for kind in case["prefixes"]:
        nasty_prefix(kind, spec, rng)
        sig = signature(spec, cands)
        acc.executions += 1 + len(cands)
        acc.sigs.add(common.h([common.h(spec), kind]))
        same = (sig["verdict"] == fresh["verdict"] and sig["optimum"] == fresh["optimum"]
                and sig["admits"] == fresh["admits"])
        acc.count(acc.clauses, f"C14.prefix.{kind}:{'T' if same else 'F'}")
        if not same:
            what = ("verdict" if sig["verdict"] != fresh["verdict"] else
                    "optimum" if sig["optimum"] != fresh["optimum"] else "admit")
            acc.violation("C14.history_dependence", what, {"prefix": kind, "what": what,
                                                           "objectives": len(spec.get("objectives", []))},
                          {"fresh": fresh, "after_prefix": sig})
    acc.sample = {"spec": spec, "prefixes": case["prefixes"], "fresh_signature": {
        "verdict": fresh["verdict"], "optimum": fresh["optimum"], "admits": fresh["admits"][:8]}}
    return acc.result()


def base_specs(n, seed, tier):
    out = []
    i = 0
    while len(out) < n:
        r = random.Random(f"{seed}-c14-{i}")
        i += 1
        spec = gen.random_spec(r, n_tasks=r.randint(2, 3), profile={"optional": 0.5, "selection": 0.4, "buffers": 0.3,
                                                                    "task_constraints": 2, "resource_constraints": 1,
                                                                    "cumulative": 0.2})
        if r.random() < 0.5:
            names = [t["name"] for t in spec["tasks"]]
            if r.random() < 0.5:
                spec["objectives"] = [{"kind": r.choice(["Makespan", "Flowtime", "Priorities", "StartLatest"])}]
            else:
                spec["indicators"] = [{"id": "i", "kind": "FromExpr", "name": "qq",
                                       "expr": ["+", ["start", names[0]], ["end", names[-1]]]}]
                spec["objectives"] = [{"kind": r.choice(["MinimizeIndicator", "MaximizeIndicator"]), "indicator": "i",
                                       "weight": 1}]
                for t in spec["tasks"]:
                    if t["name"] in (names[0], names[-1]):
                        t.pop("optional", None)
        # constraints carry explicit names (a user may name them; names are unique per problem only)
        for c in spec["constraints"]:
            c["name"] = c["id"]
        out.append(spec)
    # formulas whose operand order may be permuted
    from . import c10
    for j in range(4 if tier == "quick" else 30):
        r = random.Random(f"{seed}-c14-fol-{j}")
        f = c10.random_formula(r, 2, False)
        if f.get("kind") in ("And", "Or", "Not", "Xor", "Implies", "IfThenElse"):
            sp = c10.base_spec(False)
            sp["constraints"] = [c10.with_ids(f, [0])]
            out.append(sp)
    # hand-made: order-sensitive suspects
    out.append(fam.base(4, [fam.fx("x", 1, optional=True), fam.fx("y", 1, optional=True), fam.fx("z", 1)], constraints=[
        {"id": "g", "kind": "OrderedTaskGroup", "tasks": ["x", "y"], "interval": [0, 4], "mode": "lax"},
        {"id": "f1", "kind": "OptionalTaskForceSchedule", "task": "x", "value": False},
        {"id": "f2", "kind": "OptionalTaskForceSchedule", "task": "y", "value": False}]))
    out.append(fam.base(4, [fam.fx("x", 1, optional=True), fam.fx("y", 2), fam.fx("z", 1, optional=True)],
                        workers=[{"name": "w0"}], requirements=[{"task": n, "resource": "w0"} for n in "xyz"],
                        constraints=[{"id": "nd", "kind": "ResourceNonDelay", "resource": "w0"}]))
    out.append(fam.base(5, [fam.fx("x", 1, optional=True), fam.fx("y", 2), fam.fx("z", 1, optional=True)],
                        constraints=[{"id": "tc", "kind": "TasksContiguous", "tasks": ["x", "y", "z"]}]))
    # constraints of very different nature side by side (buffer operations contribute no assertion of their own):
    # every declaration order of them must mean the same
    for conc in (False, True):
        out.append(fam.base(6, [fam.fx("fill", 2), fam.fx("drain", 2), fam.fx("x", 1, optional=True)], buffers=[
            {"name": "tank", "concurrent": conc, "initial": 0, "lower": 0, "upper": 3}], constraints=[
            {"id": "l", "name": "l", "kind": "TaskLoadBuffer", "task": "fill", "buffer": "tank", "quantity": 2},
            {"id": "u", "name": "u", "kind": "TaskUnloadBuffer", "task": "drain", "buffer": "tank", "quantity": 2},
            {"id": "s", "name": "s", "kind": "TaskStartAt", "task": "fill", "value": 1},
            {"id": "e", "name": "e", "kind": "TaskEndBefore", "task": "drain", "value": 5, "mode": "lax"},
            {"id": "p", "name": "p", "kind": "TaskPrecedence", "before": "x", "after": "drain", "offset": 0, "mode": "lax"}]))
    # two buffers of the same kind accessed at the same instant by different tasks: which one is declared first must
    # not matter (also with workers / cumulative workers / objectives declared in another order)
    for c1, c2 in ((True, True), (False, False)):
        out.append(fam.base(6, [fam.fx("feed", 3), fam.fx("drain", 2)], workers=[{"name": "w0"}, {"name": "w1"}],
                            requirements=[{"task": "feed", "resource": "w0"}, {"task": "drain", "resource": "w1"}],
                            buffers=[{"name": "stock", "concurrent": c1, "initial": 10},
                                     {"name": "bin", "concurrent": c2, "initial": 10, "final": 15}],
                            constraints=[
            {"id": "l", "name": "l", "kind": "TaskLoadBuffer", "task": "feed", "buffer": "bin", "quantity": 5},
            {"id": "u", "name": "u", "kind": "TaskUnloadBuffer", "task": "drain", "buffer": "stock", "quantity": 4},
            {"id": "s1", "name": "s1", "kind": "TaskStartAt", "task": "feed", "value": 0},
            {"id": "s2", "name": "s2", "kind": "TaskStartAt", "task": "drain", "value": 3}],
            objectives=[{"kind": "Makespan"}]))
    # a plain worker and a cumulative worker, the same kind of indicator on each
    for dur in (4, None):
        t2 = fam.fx("t2", 4) if dur else fam.vr("t2", 1, 4)
        sp = fam.base(10, [fam.fx("t1", 2), t2], workers=[{"name": "w0"}], cumulative=[{"name": "cu", "size": 2}],
                      requirements=[{"task": "t1", "resource": "w0"}, {"task": "t2", "resource": "cu"}],
                      indicators=[{"id": "i", "kind": "Utilization", "resource": "w0"},
                                  {"id": "j", "kind": "Utilization", "resource": "cu"}])
        if not dur:
            sp["objectives"] = [{"kind": "MaximizeIndicator", "indicator": "j", "weight": 1}]
        out.append(sp)
    out += collision_specs()
    return out


def generate(tier, seed):
    cases = []
    n = 40 if tier == "quick" else 200
    for i, spec in enumerate(base_specs(n, seed, tier)):
        cases.append({"cid": f"twins-{i}", "family": "twins", "kind": "twins", "spec": spec, "rng": seed * 1000 + i,
                      "ncand": 12 if tier == "quick" else 40, "ntwins": 6 if tier == "quick" else 12})
    cases.append({"cid": "cross-kind-names", "family": "cross-kind", "kind": "cross_kind"})
    m = 20 if tier == "quick" else 80
    for i, spec in enumerate(base_specs(m, seed + 1, tier)):
        cases.append({"cid": f"prefix-{i}", "family": "history", "kind": "prefix", "spec": spec, "rng": seed * 1000 + i,
                      "ncand": 8 if tier == "quick" else 25, "prefixes": PREFIX_KINDS})
    return cases


def _cross_kind_problem(scenario, names):
    """hand-built (the Spec model identifies elements by name alone and cannot express this): elements of DIFFERENT kinds
    carrying the same name - a worker and a cumulative worker, a task and a worker, a buffer and a task"""
    wn, cn, tn, bn = names
    pb = ps.SchedulingProblem(name=f"cross_{scenario}", horizon=10)
    t1 = ps.FixedDurationTask(name=tn, duration=2)
    w = ps.Worker(name=wn)
    cu = ps.CumulativeWorker(name=cn, size=2)
    t1.add_required_resource(w)
    if scenario == "fixed":
        t2 = ps.FixedDurationTask(name="t2", duration=4)
    else:
        t2 = ps.VariableDurationTask(name="t2", min_duration=1, max_duration=4)
    t2.add_required_resource(cu)
    bf = ps.NonConcurrentBuffer(name=bn, initial_level=3, lower_bound=0)
    ps.TaskUnloadBuffer(task=t1, buffer=bf, quantity=2)
    i1 = ps.IndicatorResourceUtilization(resource=w)
    i2 = ps.IndicatorResourceUtilization(resource=cu)
    ps.IndicatorNumberTasksAssigned(resource=w)
    ps.IndicatorNumberTasksAssigned(resource=cu)
    if scenario == "maximize":
        ps.ObjectiveMaximizeIndicator(name="obj", target=i2, weight=1)
    elif scenario == "pinned":
        ps.TaskStartAt(task=t1, value=3)
        ps.TaskStartAt(task=t2, value=1)
    sol = ps.SchedulingSolver(problem=pb, max_time=30).solve()
    if not sol:
        return ("nosolution",)
    return ("sat", sol.tasks[tn].end - sol.tasks[tn].start, sol.tasks["t2"].end - sol.tasks["t2"].start,
            (sol.tasks[tn].start, sol.tasks["t2"].start) if scenario == "pinned" else None)


def run_cross_kind(case):
    acc = common.Acc(PREFIXES)
    for scenario in ("fixed", "maximize", "pinned"):
        ref = None
        for label, names in (("distinct", ("w0", "cu", "t1", "bf")), ("worker=cumulative", ("A", "A", "t1", "bf")),
                             ("task=worker", ("A", "cu", "A", "bf")), ("buffer=task", ("w0", "cu", "A", "A")),
                             ("all", ("A", "A", "A", "A"))):
            ins.reset_case()
            try:
                with warnings.catch_warnings():
                    warnings.simplefilter("ignore")
                    sig = _cross_kind_problem(scenario, names)
            except Exception as exc:  # pylint: disable=broad-except
                sig = ("exception", type(exc).__name__, str(exc)[:120])
            acc.executions += 1
            if ref is None:
                ref = sig
                continue
            same = sig == ref
            acc.count(acc.clauses, f"C14.twin.cross-kind:{'T' if same else 'F'}")
            acc.sigs.add(common.h([scenario, label]))
            if not same:
                acc.violation("C14.verdict_differs" if sig[0] != ref[0] else "C14.optimum_differs", "differs",
                              {"twin": "rename-cross-kind", "same_name": label, "scenario": scenario},
                              {"distinct_names": ref, "shared_name": sig})
    acc.sample = {"scenarios": ["fixed", "maximize", "pinned"], "reference": list(ref)}
    return acc.result()


def run_case(case):
    if case["kind"] == "cross_kind":
        return run_cross_kind(case)
    if case["kind"] == "twins":
        return run_twins(case)
    return run_prefix(case)


def floors(tier):
    return {"distinct_nontrivial": 200, "C14.twin.rename:T": 80, "C14.twin.permute:T": 80}


def shards(tier):
    return 64


CASE_SECONDS = 400
