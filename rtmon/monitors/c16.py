"""C16 — exports (JSON, CSV/DataFrame, Excel, SMT-LIB) reproduce the data exactly."""
import copy
import os
import random
import shutil
import tempfile
import warnings

from . import common, c05, c08, hist
from .. import build as bld
from .. import cands as cd
from .. import families as fam
from .. import gen
from .. import instrument as ins
from .. import observe as obs
from .. import probe as pr
from .. import readers as rd

import processscheduler as ps

PROPERTY = "C16"
PREFIXES = ("C16.",)
RULE = ("solutions drawn from the C01-C09 catalogues (unscheduled optional tasks at -1 and below, zero-duration tasks, tasks "
        "at instant 0, cumulative workers, selections, buffers, indicators, calendar times), steered to several valid "
        "placements each, are exported with to_json / to_csv / to_excel_file and read back with independent readers "
        "(json, csv module, zipfile+xml); every task/resource/buffer/indicator field must match the solution object and "
        "the workbook grid must contain exactly the expected cells and merged ranges. SMT-LIB: export_to_smt2 under both "
        "optimisers for feasible and infeasible problems is fed to the EXTERNAL z3 binary (4.8.12): it must parse, agree "
        "with the solver's own verdict, and the task timing of its model must be admitted by a fresh instance of the "
        "problem. Round trips: task and cost-function definitions over a boundary grid through to_json / "
        "model_validate_json. distinct = (spec, placement, format).")
ASSUMPTIONS = ["zero-length assignments in the workbook are band (the sheet has one column per period)",
               "the external z3 binary is an independent consumer of SMT-LIB"]
EXHAUSTIVE = {"quick": False, "thorough": False}


def check_json(acc, S, text):
    d = rd.read_json_text(text)
    ok = True

    def bad(what, **kw):
        nonlocal ok
        ok = False
        acc.violation("C16.json." + what, "wrong-value", {}, kw)

    if d.get("horizon") != S["horizon"]:
        bad("horizon", got=d.get("horizon"), want=S["horizon"])
    for n, t in S["tasks"].items():
        j = d.get("tasks", {}).get(n)
        if j is None:
            bad("task_missing", task=n)
            continue
        for f_json, f_s in (("start", "start"), ("end", "end"), ("duration", "duration"), ("scheduled", "scheduled"),
                            ("assigned_resources", "assigned")):
            if j.get(f_json) != t[f_s]:
                bad("task_field", task=n, field=f_json, got=j.get(f_json), want=t[f_s])
    if set(d.get("tasks", {})) - set(S["tasks"]):
        bad("task_extra", extra=sorted(set(d["tasks"]) - set(S["tasks"])))
    for r, lst in S["assign"].items():
        j = d.get("resources", {}).get(r)
        if j is None or [list(a) for a in j.get("assignments", [])] != [list(a) for a in lst]:
            bad("resource_assignments", resource=r, got=None if j is None else j.get("assignments"), want=lst)
    for b, bs in S["buffers"].items():
        j = d.get("buffers", {}).get(b)
        if j is None or j.get("level") != bs["level"] or j.get("level_change_times") != bs["times"]:
            bad("buffer", buffer=b, got=j, want=bs)
    if d.get("indicators") != S["indicators"]:
        bad("indicators", got=d.get("indicators"), want=S["indicators"])
    acc.count(acc.clauses, f"C16.json:{'T' if ok else 'F'}")


def check_df(acc, S, frame):
    """the pandas data frame itself, read through its public accessors"""
    ok = True
    rows = frame.to_dict(orient="records")
    names = [r.get("Task name") for r in rows]
    if names != list(S["tasks"]):
        ok = False
        acc.violation("C16.df.rows", "wrong-value", {}, {"got": names, "want": list(S["tasks"])})
    for r in rows:
        t = S["tasks"].get(r.get("Task name"))
        if t is None:
            continue
        got = {"start": int(r["Start"]), "end": int(r["End"]), "duration": int(r["Duration"]),
               "scheduled": bool(r["Scheduled"]), "assigned": list(r["Allocated Resources"])}
        for k, v in got.items():
            if v != t[k]:
                ok = False
                acc.violation("C16.df.field", "wrong-value", {}, {"task": r["Task name"], "field": k, "got": v, "want": t[k]})
    acc.count(acc.clauses, f"C16.df:{'T' if ok else 'F'}")


def check_csv(acc, S, text, sep=","):
    header, rows = rd.read_csv_text(text, sep)
    ok = True

    def bad(what, **kw):
        nonlocal ok
        ok = False
        acc.violation("C16.csv." + what, "wrong-value", {}, kw)

    names = [r.get("Task name") for r in rows]
    if names != list(S["tasks"]):
        bad("rows", got=names, want=list(S["tasks"]))
    for r in rows:
        t = S["tasks"].get(r.get("Task name"))
        if t is None:
            continue
        got = {"start": int(r["Start"]), "end": int(r["End"]), "duration": int(r["Duration"]),
               "scheduled": r["Scheduled"] == "True", "assigned": rd.parse_list_cell(r["Allocated Resources"])}
        for k, v in got.items():
            if v != t[k]:
                bad("field", task=r["Task name"], field=k, got=v, want=t[k])
    acc.count(acc.clauses, f"C16.csv{'' if sep == ',' else '.sep'}:{'T' if ok else 'F'}")


def expected_rows(items, first_header):
    cells, merges = {(0, 0): first_header}, []
    return cells, merges


def check_xlsx(acc, S, path):
    wb = rd.read_xlsx(path)
    ok = True

    def bad(what, **kw):
        nonlocal ok
        ok = False
        acc.violation("C16.xlsx." + what, "wrong-value", {k: v for k, v in kw.items() if k == "kind"}, kw)

    names = list(wb)
    if names != ["GANTT Resource view", "GANTT Task view", "Indicators"]:
        bad("sheets", got=names)
        acc.count(acc.clauses, "C16.xlsx:F")
        return
    # resource view
    exp_cells, exp_merges, band_cells = {(0, 0): "Resources"}, set(), set()
    skip_rows = set()
    for i, (res, lst) in enumerate(S["assign"].items()):
        exp_cells[(i + 1, 0)] = res
        # a cumulative worker running tasks in parallel cannot be drawn on one row: band
        if any(a is not b and a[1] < b[2] and b[1] < a[2] for a in lst for b in lst):
            skip_rows.add(i + 1)
            continue
        for tn, s, e in lst:
            if e - s >= 1:
                exp_cells[(i + 1, s + 1)] = tn
                if e - s > 1:
                    exp_merges.add(((i + 1, s + 1), (i + 1, e)))
            else:
                band_cells.add((i + 1, s + 1))
    got = wb["GANTT Resource view"]
    got = {"cells": {p: v for p, v in got["cells"].items() if p[0] not in skip_rows or p[1] == 0},
           "merges": [m for m in got["merges"] if m[0][0] not in skip_rows]}
    _cmp_sheet(bad, "resource_view", got, exp_cells, exp_merges, band_cells)
    # task view: text = joined assigned resources (may be empty -> blank formatted cell)
    exp_cells, exp_merges, band_cells = {(0, 0): "Tasks"}, set(), set()
    for i, (tn, t) in enumerate(S["tasks"].items()):
        exp_cells[(i + 1, 0)] = tn
        if not t["scheduled"]:
            continue
        txt = ",".join(t["assigned"])
        if t["end"] - t["start"] >= 1:
            exp_cells[(i + 1, t["start"] + 1)] = txt if txt else None
            if t["end"] - t["start"] > 1:
                exp_merges.add(((i + 1, t["start"] + 1), (i + 1, t["end"])))
        else:
            band_cells.add((i + 1, t["start"] + 1))
    _cmp_sheet(bad, "task_view", wb["GANTT Task view"], exp_cells, exp_merges, band_cells)
    # indicators
    exp_cells = {(0, 0): "Indicator", (0, 1): "Value"}
    for i, (n, v) in enumerate(S["indicators"].items()):
        exp_cells[(i + 1, 0)] = n
        exp_cells[(i + 1, 1)] = v
    _cmp_sheet(bad, "indicators", wb["Indicators"], exp_cells, set(), set())
    acc.count(acc.clauses, f"C16.xlsx:{'T' if ok else 'F'}")


def _cmp_sheet(bad, sheet, got, exp_cells, exp_merges, band_cells):
    cells = dict(got["cells"])
    merges = set(got["merges"])
    # blank cells that only carry the format of a merged range are not content
    covered = set()
    for (r0, c0), (r1, c1) in merges:
        for c in range(c0, c1 + 1):
            covered.add((r0, c))
    for pos, want in exp_cells.items():
        if pos in band_cells:
            continue
        if pos not in cells:
            bad("cell_missing", sheet=sheet, pos=list(pos), want=want, kind=sheet + ".cell_missing")
        elif cells[pos] != want:
            bad("cell_value", sheet=sheet, pos=list(pos), got=cells[pos], want=want, kind=sheet + ".cell_value")
    for pos, v in cells.items():
        if pos in exp_cells or pos in band_cells:
            continue
        if v is None and pos in covered:
            continue
        bad("cell_extra", sheet=sheet, pos=list(pos), got=v, kind=sheet + ".cell_extra")
    if merges != exp_merges:
        bad("merges", sheet=sheet, got=sorted(merges), want=sorted(exp_merges), kind=sheet + ".merges")


def export_all(acc, spec, res, tmpdir, tag):
    sol, S = res["_solution"], res["sched"]
    feats = {"any_unscheduled": any(not t["scheduled"] for t in S["tasks"].values()),
             "has_buffer": bool(S["buffers"]), "has_indicators": bool(S["indicators"])}
    for fmt, fn in (("json", lambda: check_json(acc, S, sol.to_json())),
                    ("csv", lambda: check_csv(acc, S, sol.to_csv())),
                    ("xlsx", lambda: (sol.to_excel_file(os.path.join(tmpdir, f"{tag}.xlsx")),
                                      check_xlsx(acc, S, os.path.join(tmpdir, f"{tag}.xlsx"))))):
        try:
            with warnings.catch_warnings():
                warnings.simplefilter("ignore")
                fn()
            acc.executions += 1
        except Exception as exc:  # pylint: disable=broad-except
            acc.violation(f"C16.{fmt}.exception", "exception", dict(feats, exc=type(exc).__name__),
                          {"msg": str(exc)[:300]})
    # file variants and every documented argument of the exporters (separator, compact, colors)
    try:
        p = os.path.join(tmpdir, f"{tag}.json")
        sol.to_json_file(p)
        with open(p) as f:
            check_json(acc, S, f.read())
        p = os.path.join(tmpdir, f"{tag}.csv")
        sol.to_csv(p)
        with open(p) as f:
            check_csv(acc, S, f.read())
        with warnings.catch_warnings():
            warnings.simplefilter("ignore")
            check_df(acc, S, sol.to_df())
            for si, sep in enumerate((";", "\t", "|")):
                check_csv(acc, S, sol.to_csv(separator=sep), sep)
                p = os.path.join(tmpdir, f"{tag}.sep{si}.csv")
                sol.to_csv(p, sep)
                with open(p, newline="") as f:
                    check_csv(acc, S, f.read(), sep)
                p = os.path.join(tmpdir, f"{tag}.kw{si}.csv")
                sol.to_csv(csv_filename=p, separator=sep)
                with open(p, newline="") as f:
                    check_csv(acc, S, f.read(), sep)
            check_json(acc, S, sol.to_json(compact=True))
            p = os.path.join(tmpdir, f"{tag}.compact.json")
            sol.to_json_file(p, compact=True)
            with open(p) as f:
                check_json(acc, S, f.read())
            p = os.path.join(tmpdir, f"{tag}.colors.xlsx")
            sol.to_excel_file(p, colors=True)
            check_xlsx(acc, S, p)
        acc.executions += 12
    except Exception as exc:  # pylint: disable=broad-except
        acc.violation("C16.file.exception", "exception", dict(feats, exc=type(exc).__name__), {"msg": str(exc)[:300]})


def run_export(case):
    acc = common.Acc(PREFIXES)
    spec = case["spec"]
    rng = random.Random(case["rng"])
    tmpdir = tempfile.mkdtemp(prefix="rtmon_c16_")
    try:
        cs = [c for c in cd.enumerate_candidates(spec, wide=False, limit=3000, rng=rng)
              if cd.classify(spec, c)[0] in ("valid", "band")]
        if len(cs) > case["limit"]:
            cs = rng.sample(cs, case["limit"])
        plans = [{"pins": []}] + [{"pins": pr.candidate_pins(spec, c)} for c in cs]
        for i, plan in enumerate(plans):
            res = pr.run_solve(spec, plan, keep=True)
            if res["outcome"] != "sat":
                acc.count(acc.outcomes, res["outcome"])
                continue
            acc.count(acc.outcomes, "sat")
            export_all(acc, spec, res, tmpdir, f"s{i}")
            acc.sigs.add(common.h([common.h(spec), i, case["rng"]]))
            if acc.sample is None:
                acc.sample = {"spec": spec, "solution_tasks": {n: [t["scheduled"], t["start"], t["end"], t["assigned"]]
                                                               for n, t in res["sched"]["tasks"].items()},
                              "formats": ["json", "csv", "xlsx"]}
        if not acc.executions:
            acc.empty_ok = True
    finally:
        shutil.rmtree(tmpdir, ignore_errors=True)
    return acc.result()


def run_smt(case):
    acc = common.Acc(PREFIXES)
    spec = case["spec"]
    tmpdir = tempfile.mkdtemp(prefix="rtmon_c16s_")
    try:
        for cfg in ({"optimizer": "incremental"}, {"optimizer": "optimize", "optimize_priority": "lex"},
                    {"optimizer": "incremental", "debug": True}, {"optimizer": "optimize", "optimize_priority": "lex", "debug": True}):
            if cfg["optimizer"] == "optimize" and not spec.get("objectives"):
                continue
            ref = pr.run_solve(spec, {"solver": cfg})
            acc.executions += 1
            ins.reset_case()
            with warnings.catch_warnings():
                warnings.simplefilter("ignore")
                b = bld.build(spec)
                solver = ps.SchedulingSolver(problem=b.problem, max_time=30, **cfg)
            path = os.path.join(tmpdir, f"p_{cfg['optimizer']}_{bool(cfg.get('debug'))}.smt2")
            feats = {"optimizer": cfg["optimizer"], "debug": bool(cfg.get("debug"))}
            try:
                solver.export_to_smt2(path)
            except Exception as exc:  # pylint: disable=broad-except
                acc.violation("C16.smt2.exception", "exception", dict(feats, exc=type(exc).__name__), {"msg": str(exc)[:300]})
                continue
            with open(path) as f:
                text = f.read()
            if "(check-sat)" not in text:
                text += "\n(check-sat)\n"
            # names of the task unknowns as the library itself names them (read off the live objects)
            names, vname = [], {}
            for t in spec["tasks"]:
                obj = b.tasks[t["name"]]
                vname[t["name"]] = (str(obj._start), str(obj._end), str(obj._scheduled) if t.get("optional") else None)
                names += [vname[t["name"]][0], vname[t["name"]][1]]
                if t.get("optional"):
                    names.append(vname[t["name"]][2])
            ext = rd.external_z3(text, names)
            acc.executions += 1
            acc.count(acc.outcomes, f"external:{ext['status']}|library:{ref['outcome']}")
            acc.sigs.add(common.h([common.h(spec), cfg]))
            if ext["status"] == "error":
                acc.violation("C16.smt2.unparsable", "error", feats, {"raw": ext["raw"]})
                continue
            if ext["status"] == "unknown" or ref["outcome"] not in ("sat", "unsat"):
                acc.inconclusive.append("unknown")
                continue
            same = ext["status"] == ref["outcome"]
            acc.count(acc.clauses, f"C16.smt2.verdict:{'T' if same else 'F'}")
            if not same:
                acc.violation("C16.smt2.verdict_differs", "differs", dict(feats, external=ext["status"], library=ref["outcome"]),
                              {"raw": ext["raw"][:200]})
                continue
            if ext["status"] == "sat":
                cand = {"horizon": spec["problem"].get("horizon"), "tasks": {}, "chosen": {}, "dyn": {}}
                complete = True
                for t in spec["tasks"]:
                    n = t["name"]
                    vs, ve, vsch = vname[n]
                    if vs not in ext["values"] or ve not in ext["values"]:
                        complete = False
                        break
                    sch = ext["values"].get(vsch, True) if t.get("optional") else True
                    cand["tasks"][n] = {"scheduled": bool(sch), "start": ext["values"][vs], "end": ext["values"][ve]}
                if not complete:
                    acc.violation("C16.smt2.model_lacks_task_values", "missing", feats, {"values": ext["values"]})
                    continue
                s0 = dict(spec, objectives=[])
                back = pr.run_solve(s0, {"pins": pr.candidate_pins(s0, cand, pin_selections=False, pin_dynamic=False)})
                acc.executions += 1
                okb = back["outcome"] == "sat"
                acc.count(acc.clauses, f"C16.smt2.model_admitted:{'T' if okb else back['outcome']}")
                if back["outcome"] == "unsat":
                    acc.violation("C16.smt2.model_not_a_valid_schedule", "admitted-invalid", feats, {"external_model": cand})
            # multi-step: what is exported after a solution has been excluded must exclude it too
            if ext["status"] == "sat" and cfg == {"optimizer": "incremental"} and not spec.get("objectives"):
                try:
                    with warnings.catch_warnings():
                        warnings.simplefilter("ignore")
                        b2 = bld.build(spec)
                        s2 = ps.SchedulingSolver(problem=b2.problem, max_time=30)
                        s2.export_to_smt2(os.path.join(tmpdir, "step0.smt2"))
                        sol1 = s2.solve()
                        s2.export_to_smt2(os.path.join(tmpdir, "step1.smt2"))
                        s2.find_another_solution()
                        s2.export_to_smt2(os.path.join(tmpdir, "step2.smt2"))
                    if sol1:
                        with open(os.path.join(tmpdir, "step2.smt2")) as f2:
                            t2 = f2.read()
                        pins_txt = ""
                        for tn, tsol in sol1.tasks.items():
                            o2 = b2.tasks[tn]
                            pins_txt += f"(assert (= {o2._start} {tsol.start if tsol.start >= 0 else '(- %d)' % -tsol.start}))\n"
                            pins_txt += f"(assert (= {o2._end} {tsol.end if tsol.end >= 0 else '(- %d)' % -tsol.end}))\n"
                            if tsol.optional:
                                pins_txt += f"(assert (= {o2._scheduled} {'true' if tsol.scheduled else 'false'}))\n"
                        t2 = t2.replace("(check-sat)", pins_txt + "(check-sat)")
                        ext2 = rd.external_z3(t2)
                        acc.executions += 1
                        okx = ext2["status"] == "unsat"
                        acc.count(acc.clauses, f"C16.smt2.export_after_exclusion:{'T' if okx else ext2['status']}")
                        if ext2["status"] == "sat":
                            acc.violation("C16.smt2.stale_export_after_find_another", "stale", feats,
                                          {"excluded_schedule": {n: [t.start, t.end] for n, t in sol1.tasks.items()}})
                except Exception as exc:  # pylint: disable=broad-except
                    acc.violation("C16.smt2.exception", "exception", dict(feats, exc=type(exc).__name__, step="multi"),
                                  {"msg": str(exc)[:300]})
            # multi-step with an objective: what is exported AFTER an optimisation (run to the end, or cut short by
            # max_iter) still denotes the problem - satisfiable, and the schedule just returned is one of its models
            if ext["status"] == "sat" and cfg == {"optimizer": "incremental"} and spec.get("objectives"):
                for mi in (None, 1, 2):
                    try:
                        with warnings.catch_warnings():
                            warnings.simplefilter("ignore")
                            b3 = bld.build(spec)
                            kw3 = {"max_iter": mi} if mi else {}
                            s3 = ps.SchedulingSolver(problem=b3.problem, max_time=30, **kw3)
                            sol3 = s3.solve()
                            p3 = os.path.join(tmpdir, f"after_opt_{mi}.smt2")
                            s3.export_to_smt2(p3)
                        if not sol3:
                            continue
                        with open(p3) as f3:
                            t3 = f3.read()
                        if "(check-sat)" not in t3:
                            t3 += "\n(check-sat)\n"
                        pins_txt = ""
                        for tn, tsol in sol3.tasks.items():
                            o3 = b3.tasks[tn]
                            pins_txt += f"(assert (= {o3._start} {tsol.start if tsol.start >= 0 else '(- %d)' % -tsol.start}))\n"
                            pins_txt += f"(assert (= {o3._end} {tsol.end if tsol.end >= 0 else '(- %d)' % -tsol.end}))\n"
                            if tsol.optional:
                                pins_txt += f"(assert (= {o3._scheduled} {'true' if tsol.scheduled else 'false'}))\n"
                        for label, text3 in (("plain", t3), ("returned", t3.replace("(check-sat)", pins_txt + "(check-sat)"))):
                            ext3 = rd.external_z3(text3)
                            acc.executions += 1
                            ok3 = ext3["status"] == "sat"
                            acc.count(acc.clauses, f"C16.smt2.export_after_optimisation.{label}:{'T' if ok3 else ext3['status']}")
                            if ext3["status"] == "unsat":
                                acc.violation("C16.smt2.export_after_optimisation", "stale",
                                              dict(feats, which=label, max_iter=mi), {"raw": ext3["raw"][:200]})
                                break
                    except Exception as exc:  # pylint: disable=broad-except
                        acc.violation("C16.smt2.exception", "exception", dict(feats, exc=type(exc).__name__, step="after_opt"),
                                      {"msg": str(exc)[:300]})
            if acc.sample is None:
                acc.sample = {"spec": spec, "config": cfg, "external_status": ext["status"], "library": ref["outcome"],
                              "external_values": ext["values"], "smt2_bytes": len(text)}
    finally:
        shutil.rmtree(tmpdir, ignore_errors=True)
    return acc.result()


def run_roundtrip(case):
    acc = common.Acc(PREFIXES)
    ps.SchedulingProblem(name="rt_src")
    for i, t in enumerate(case["tasks"]):
        kw = {k: v for k, v in t.items() if k not in ("type",)}
        cls = {"Fixed": ps.FixedDurationTask, "Zero": ps.ZeroDurationTask, "Variable": ps.VariableDurationTask}[t["type"]]
        try:
            ps.SchedulingProblem(name=f"rt_src_{i}")
            obj = cls(**kw)
            text = obj.to_json()
            pb2 = ps.SchedulingProblem(name=f"rt_dst_{i}")
            back = cls.model_validate_json(text)
            acc.executions += 1
            fields = [f for f in cls.model_fields if f not in ("type",)]
            diff = {f: (getattr(obj, f), getattr(back, f)) for f in fields if getattr(obj, f) != getattr(back, f)}
            registered = back.name in pb2.tasks
            acc.count(acc.clauses, f"C16.roundtrip.task:{'T' if not diff and registered else 'F'}")
            acc.sigs.add(common.h(["task", t]))
            if diff or not registered:
                acc.violation("C16.roundtrip.task", "wrong-value", {"type": t["type"], "fields": sorted(diff)},
                              {"task": t, "diff": {k: [str(a), str(b)] for k, (a, b) in diff.items()}, "registered": registered})
            # add_from_json: same through the problem's own entry point
            pb3 = ps.SchedulingProblem(name=f"rt_dst2_{i}")
            back2 = pb3.add_from_json(text)
            diff2 = {f: (getattr(obj, f), getattr(back2, f)) for f in fields if getattr(obj, f) != getattr(back2, f)}
            acc.count(acc.clauses, f"C16.roundtrip.add_from_json:{'T' if not diff2 else 'F'}")
            if diff2:
                acc.violation("C16.roundtrip.add_from_json", "wrong-value", {"type": t["type"], "fields": sorted(diff2)},
                              {"task": t})
        except Exception as exc:  # pylint: disable=broad-except
            acc.violation("C16.roundtrip.exception", "exception", {"type": t["type"], "exc": type(exc).__name__},
                          {"task": t, "msg": str(exc)[:300]})
    for fn in case["functions"]:
        try:
            k = fn["kind"]
            obj = {"const": lambda: ps.ConstantFunction(value=fn["value"]),
                   "linear": lambda: ps.LinearFunction(slope=fn["slope"], intercept=fn["intercept"]),
                   "poly": lambda: ps.PolynomialFunction(coefficients=fn["coefficients"])}[k]()
            back = type(obj).model_validate_json(obj.to_json())
            acc.executions += 1
            same = all(obj(x) == back(x) for x in (-2, 0, 1, 3, 10))
            acc.count(acc.clauses, f"C16.roundtrip.function:{'T' if same else 'F'}")
            acc.sigs.add(common.h(["fn", fn]))
            if not same:
                acc.violation("C16.roundtrip.function", "wrong-value", {"kind": k}, {"function": fn})
        except Exception as exc:  # pylint: disable=broad-except
            acc.violation("C16.roundtrip.exception", "exception", {"type": fn["kind"], "exc": type(exc).__name__},
                          {"function": fn, "msg": str(exc)[:300]})
    acc.sample = {"tasks": case["tasks"][:2], "functions": case["functions"][:2]}
    return acc.result()


def export_specs(tier, seed):
    out = []
    for name, spec in fam.c02_cells(tier):
        if any(k in name for k in ("one_worker.fo", "one_worker.fz", "two_workers.ff", "selection.exact1of2.oo",
                                   "cumulative2.fvo", "cumulative3.fzf", "delayed.di1.eo1", "dynamic.Variable",
                                   "delayed_opt", "one_worker3.fzf", "two_selections.fo", "work_opt.3")):
            out.append(("C02." + name, spec))
    for name, spec in fam.c09_cells(tier):
        if any(k in name for k in ("nonconc.UL.initial2,lower0", "conc.LL.initial2", "chain", "conc.ULU.initial3",
                                   # buffers accessed by an optional task (its instant is in the past when unscheduled),
                                   # cancelling accesses, two buffers
                                   "same_quantity.opt_loader", "conc.same_quantity.opt_unloader", "conc.cancel.UL",
                                   "two.nc.pipeline")):
            out.append(("C09." + name, spec))
    for name, spec, _hi in c08.cells(tier):
        if any(k in name for k in ("Utilization.fo.H7", "ResourceCost.l21.ff", "Tardiness.all", "BufferLevels.False",
                                   "FromExpr", "NbTasksAssigned.sel")):
            out.append(("C08." + name, spec))
    for name, spec in c05.optional_cells():
        if any(k in name for k in ("opt.plain", "opt.worker.f", "opt.cumulative.v", "opt.forceN.exact1")):
            out.append(("C06." + name, spec))
    cal = []
    for i, (name, spec) in enumerate(out):
        if i % 4 == 0:
            s2 = copy.deepcopy(spec)
            s2["problem"].update({"delta_minutes": 20, "start_time": "2024-05-06T07:00:00"})
            cal.append((name + ".cal", s2))
    out += cal
    # long horizons (nothing in a chart or a sheet may scale with the horizon): a milestone and a fixed task on a worker
    out.append(("long", fam.base(30, [fam.fx("t0", 4), fam.zr("t1"), fam.fx("t2", 2, optional=True)],
                                 workers=[{"name": "w0"}],
                                 requirements=[{"task": "t0", "resource": "w0"}, {"task": "t1", "resource": "w0"}],
                                 constraints=[{"id": "a", "kind": "TaskStartAt", "task": "t1", "value": 20}])))
    if tier != "quick":
        # wide sheets: more than 26 columns
        out.append(("wide", fam.base(40, [fam.fx("t0", 12), fam.fx("t1", 27), fam.fx("t2", 1, optional=True)],
                                     workers=[{"name": "w0"}, {"name": "w1"}],
                                     requirements=[{"task": "t0", "resource": "w0"}, {"task": "t1", "resource": "w1"},
                                                   {"task": "t2", "resource": "w0"}],
                                     constraints=[{"id": "a", "kind": "TaskStartAt", "task": "t1", "value": 13}])))
    return out


def smt_specs(tier, seed):
    out = []
    n = 24 if tier == "quick" else 150
    i = 0
    while len(out) < n:
        r = random.Random(f"{seed}-c16-smt-{i}")
        i += 1
        s = gen.random_spec(r, n_tasks=r.randint(2, 3), profile={"buffers": 0.3})
        if any(b.get("concurrent") for b in s["buffers"]):
            continue      # quantified assertions: the old external binary may answer unknown
        if r.random() < 0.5:
            s["objectives"] = [{"kind": r.choice(["Makespan", "Flowtime", "Priorities"])}]
        if len(out) % 2 == 1:
            # make it infeasible with user constraints
            names = [t["name"] for t in s["tasks"]]
            s["constraints"] = s["constraints"] + [
                {"id": "k1", "kind": "TaskStartAt", "task": names[0], "value": 1},
                {"id": "k2", "kind": "TaskStartAfter", "task": names[0], "value": 2, "mode": "lax"},
                {"id": "k3", "kind": "OptionalTaskForceSchedule", "task": names[0], "value": True}
                if rs_optional(s, names[0]) else
                {"id": "k3", "kind": "TaskEndBefore", "task": names[0], "value": 9, "mode": "lax"}]
        out.append(s)
    return out


def rs_optional(spec, name):
    return any(t["name"] == name and t.get("optional") for t in spec["tasks"])


def roundtrip_cases():
    tasks = []
    for d in (1, 2, 7):
        for extra in ({}, {"optional": True}, {"release_date": 0}, {"release_date": 3, "due_date": 9},
                      {"due_date": 4, "due_date_is_deadline": False}, {"priority": 0}, {"priority": 5, "work_amount": 3}):
            tasks.append(dict({"type": "Fixed", "name": f"f{d}_{len(tasks)}", "duration": d}, **extra))
    for extra in ({}, {"optional": True}, {"release_date": 2}):
        tasks.append(dict({"type": "Zero", "name": f"z_{len(tasks)}"}, **extra))
    for extra in ({}, {"min_duration": 0, "max_duration": 1}, {"min_duration": 2, "max_duration": 5},
                  {"allowed_durations": [1, 4, 6]}, {"max_duration": 3, "optional": True, "work_amount": 10}):
        tasks.append(dict({"type": "Variable", "name": f"v_{len(tasks)}"}, **extra))
    functions = [{"kind": "const", "value": v} for v in (0, 1, 7, 2.5)] + \
                [{"kind": "linear", "slope": a, "intercept": b} for a, b in ((0, 0), (1, 0), (-1, 2), (3, 1), (0.5, 1))] + \
                [{"kind": "poly", "coefficients": c} for c in ([1], [1, 0], [1, 0, 0], [2, -3, 1], [0, 0, 4], [1, 2, 3, 4])]
    return tasks, functions


def generate(tier, seed):
    cases = []
    for i, (name, spec) in enumerate(export_specs(tier, seed)):
        cases.append({"cid": f"export-{name}", "family": "export", "kind": "export", "spec": spec,
                      "limit": 3 if tier == "quick" else 25, "rng": seed * 100 + i})
    for i, spec in enumerate(smt_specs(tier, seed)):
        cases.append({"cid": f"smt-{i}", "family": "smt2", "kind": "smt", "spec": spec})
    tasks, functions = roundtrip_cases()
    for k in range(0, len(tasks), 8):
        cases.append({"cid": f"roundtrip-{k}", "family": "roundtrip", "kind": "roundtrip", "tasks": tasks[k:k + 8],
                      "functions": functions if k == 0 else []})
    return cases


def run_case(case):
    k = case["kind"]
    if k == "export":
        return run_export(case)
    if k == "smt":
        return run_smt(case)
    return run_roundtrip(case)


def floors(tier):
    return {"distinct_nontrivial": 100, "C16.json:T": 60, "C16.csv:T": 60, "C16.xlsx:T": 40,
            "C16.smt2.verdict:T": 20, "C16.smt2.model_admitted:T": 8, "C16.roundtrip.task:T": 20}


def shards(tier):
    return 48
