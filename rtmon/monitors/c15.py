"""C15 — solver options change performance and search order only, never validity."""
import itertools
import warnings
import tempfile
import shutil
import os
import json
import random

from . import common, c07
from .. import families as fam
from .. import gen
from .. import probe as pr
from .. import refsem as rs

PROPERTY = "C15"
PREFIXES = ("C15.",)
RULE = ("each Spec (feasible and infeasible, with and without objective, difference-logic-only and general) is solved "
        "under the grid optimizer x parallel x random_values x debug x logics in {None, QF_IDL, QF_LIA, QF_UFIDL} plus the "
        "optimize_priority modes (parallel and random runs repeated). Every returned schedule is judged by the C01-C04/C09 "
        "clauses for the same Spec; all configurations that gave a definite answer (z3 trace: sat/unsat, loop finished) "
        "must agree on feasibility and, for single and weighted objectives, on the optimum. unknown, and exceptions raised "
        "by a logic that does not cover the problem, are recorded, not compared. distinct = (spec, configuration).")
ASSUMPTIONS = ["an exception or unknown under an explicit logics= value means the logic does not cover the problem",
               "pareto/box/lex with several objectives are compared on feasibility only"]
EXHAUSTIVE = {"quick": False, "thorough": False}

LOGICS_Q = [None, "QF_IDL", "QF_LIA", "QF_UFIDL"]
LOGICS_T = [None, "QF_LRA", "QF_LIA", "QF_RDL", "QF_IDL", "QF_AUFLIA", "QF_ALIA", "QF_AUFLIRA", "QF_AUFNIA", "QF_AUFNIRA",
            "QF_ANIA", "QF_LIRA", "QF_UFLIA", "QF_UFLRA", "QF_UFIDL", "QF_UFRDL", "QF_NIRA", "QF_UFNRA", "QF_UFNIA",
            "QF_UFNIRA", "QF_S", "QF_SLIA", "UFIDL", "HORN", "QF_FPLRA"]


def specs(tier, seed):
    W = [{"name": "w0"}]
    on = [{"task": "t0", "resource": "w0"}, {"task": "t1", "resource": "w0"}]
    out = [
        ("idl_feasible", fam.base(5, [fam.fx("t0", 2), fam.fx("t1", 1)], workers=W, requirements=on, constraints=[
            {"id": "p", "kind": "TaskPrecedence", "before": "t0", "after": "t1", "mode": "lax"}])),
        ("idl_infeasible", fam.base(2, [fam.fx("t0", 2), fam.fx("t1", 1)], workers=W, requirements=on)),
        ("idl_makespan", fam.base(6, [fam.fx("t0", 2), fam.fx("t1", 1)], workers=W, requirements=on,
                                  constraints=[{"id": "a", "kind": "TaskStartAfter", "task": "t0", "value": 1}],
                                  objectives=[{"kind": "Makespan"}])),
        ("var_max", fam.base(6, [fam.fx("t0", 2), fam.vr("t1", 1, 3)], workers=W, requirements=on, indicators=[
            {"id": "i", "kind": "FromExpr", "name": "e1", "expr": ["end", "t1"]}],
            objectives=[{"kind": "MaximizeIndicator", "indicator": "i", "weight": 1}])),
        ("optional_sel", fam.base(4, [fam.fx("t0", 2), fam.fx("t1", 1, optional=True)], workers=W + [{"name": "w1"}],
                                  selections=[{"id": "s0", "workers": ["w0", "w1"], "n": 1, "kind": "exact"}],
                                  requirements=[{"task": "t0", "resource": "s0"}, {"task": "t1", "resource": "w0"}],
                                  constraints=[{"id": "f", "kind": "OptionalTaskForceSchedule", "task": "t1", "value": True}])),
        ("infeasible_constraints", fam.base(5, [fam.fx("t0", 2), fam.fx("t1", 2)], constraints=[
            {"id": "a", "kind": "TaskStartAt", "task": "t0", "value": 3},
            {"id": "b", "kind": "TaskPrecedence", "before": "t0", "after": "t1", "mode": "lax"}])),
        ("buffer", fam.base(5, [fam.fx("t0", 2), fam.fx("t1", 1)], buffers=[{"name": "bf", "initial": 1, "lower": 0}],
                            constraints=[{"id": "u", "kind": "TaskUnloadBuffer", "task": "t0", "buffer": "bf", "quantity": 2},
                                         {"id": "l", "kind": "TaskLoadBuffer", "task": "t1", "buffer": "bf", "quantity": 1}])),
        # buffers next to workers, no objective and no indicator (nothing but the buffer needs more than difference logic)
        ("buffer_worker_feasible", fam.base(6, [fam.fx("t0", 2), fam.fx("t1", 2)], workers=W, requirements=on,
                                            buffers=[{"name": "bf", "initial": 0, "lower": 0}], constraints=[
            {"id": "l", "kind": "TaskLoadBuffer", "task": "t0", "buffer": "bf", "quantity": 3},
            {"id": "u", "kind": "TaskUnloadBuffer", "task": "t1", "buffer": "bf", "quantity": 3}])),
        ("buffer_worker_infeasible", fam.base(6, [fam.fx("t0", 2), fam.fx("t1", 2)], workers=W, requirements=on,
                                              buffers=[{"name": "bf", "initial": 0, "lower": 0}], constraints=[
            {"id": "l", "kind": "TaskLoadBuffer", "task": "t0", "buffer": "bf", "quantity": 3},
            {"id": "u", "kind": "TaskUnloadBuffer", "task": "t1", "buffer": "bf", "quantity": 3},
            {"id": "s", "kind": "TaskStartAt", "task": "t1", "value": 0}])),
        ("concurrent_buffer_worker", fam.base(6, [fam.fx("t0", 2), fam.fx("t1", 2)], workers=W, requirements=on,
                                              buffers=[{"name": "bf", "concurrent": True, "initial": 0, "lower": 0}],
                                              constraints=[
            {"id": "l", "kind": "TaskLoadBuffer", "task": "t0", "buffer": "bf", "quantity": 3},
            {"id": "u", "kind": "TaskUnloadBuffer", "task": "t1", "buffer": "bf", "quantity": 3}])),
        ("weighted", fam.base(6, [fam.fx("t0", 2), fam.fx("t1", 1)], workers=W, requirements=on, indicators=[
            {"id": "i", "kind": "FromExpr", "name": "s0", "expr": ["start", "t0"]},
            {"id": "j", "kind": "FromExpr", "name": "s1", "expr": ["start", "t1"]}], objectives=[
            {"kind": "MaximizeIndicator", "indicator": "i", "weight": 2},
            {"kind": "MaximizeIndicator", "indicator": "j", "weight": 1}])),
        ("workload_cost", fam.base(6, [fam.vr("t0", 1, 3), fam.fx("t1", 2)], workers=[
            {"name": "w0", "cost": {"kind": "linear", "slope": 1, "intercept": 1}}], requirements=on, constraints=[
            {"id": "wl", "kind": "WorkLoad", "resource": "w0", "map": [[0, 3, 2]], "mode": "max"}],
            objectives=[{"kind": "ResourceCost", "resources": ["w0"]}])),
    ]
    n = 16 if tier == "quick" else 90
    for i in range(n):
        r = random.Random(f"{seed}-c15-{i}")
        s = gen.random_spec(r, n_tasks=r.randint(2, 3))
        if i % 2 == 0:      # every other random Spec carries an objective (coverage must not depend on the seed)
            s["objectives"] = [{"kind": r.choice(["Makespan", "Flowtime", "Priorities"])}]
        out.append((f"rand{i}", s))
    return out


def configs(tier, has_obj, multi):
    logics = LOGICS_Q if tier == "quick" else LOGICS_T
    out = []
    for opt, par, rnd, dbg, lg in itertools.product(("incremental", "optimize"), (False, True), (False, True),
                                                    (False, True), logics):
        if opt == "optimize" and not has_obj:
            continue
        if tier == "quick" and par and dbg:
            continue
        if tier != "quick" and lg not in LOGICS_Q and (par or dbg or rnd or opt == "optimize"):
            continue
        cfg = {"optimizer": opt, "parallel": par, "random_values": rnd, "debug": dbg, "logics": lg, "max_time": 30}
        if opt == "optimize":
            cfg["optimize_priority"] = "lex"
        out.append(cfg)
        if rnd or par:
            out.append(dict(cfg, _repeat=1))
    if has_obj:
        for prio in ("pareto", "box", "weight"):
            out.append({"optimizer": "optimize", "optimize_priority": prio, "max_time": 30})
        out.append({"optimizer": "incremental", "save_intermediate_states": True, "max_time": 30})
        out.append({"optimizer": "optimize", "optimize_priority": "lex", "verbosity": 2, "max_time": 30})
    # verbosity switches a process-wide z3 option on: it is run last but one, a plain configuration follows it
    out.append({"optimizer": "incremental", "verbosity": 2, "max_time": 30})
    out.append({"optimizer": "incremental", "max_time": 30, "_after_verbose": 1})
    return out


def spec_features(spec):
    """which theories the generated constraint system needs (conservative)"""
    f = set()
    for b in spec.get("buffers", []):
        f.add("quant" if b.get("concurrent") else "arrays")
    idl = True
    for t in spec["tasks"]:
        if t["type"] == "Variable" or t.get("work_amount"):
            idl = False
    for w in spec.get("workers", []):
        if w.get("cost") or w.get("productivity") not in (None, 1):
            idl = False
    if spec.get("cumulative") or spec.get("selections") or spec.get("indicators"):
        idl = False
    for c, _ in rs.all_constraints(spec):
        if c["kind"] not in ("TaskStartAt", "TaskStartAfter", "TaskEndAt", "TaskEndBefore", "TaskPrecedence",
                             "TasksStartSynced", "TasksEndSynced", "TasksDontOverlap", "OptionalTaskForceSchedule"):
            idl = False
    for o in spec.get("objectives", []):
        if o["kind"] != "Makespan":
            idl = False
    if any(r.get("dynamic") for r in spec.get("requirements", [])):
        pass
    if not idl:
        f.add("lia")
    # non-linear integer arithmetic: z3's optimisers give no optimality guarantee there
    if any((w.get("cost") or {}).get("kind") in ("linear", "poly") for w in spec.get("workers", [])):
        f.add("nonlinear")
    if spec["problem"].get("horizon") is None and any(i["kind"] == "Utilization" for i in spec.get("indicators", [])):
        f.add("nonlinear")

    def prod_of_vars(e):
        if not isinstance(e, list):
            return False
        if e[0] == "*" and all(isinstance(x, list) for x in e[1:]):
            return True
        return any(prod_of_vars(x) for x in e[1:])

    if any(prod_of_vars(i.get("expr")) for i in spec.get("indicators", []) if i["kind"] == "FromExpr"):
        f.add("nonlinear")
    return f


LIA_LOGICS = {"QF_LIA", "QF_UFLIA", "QF_LIRA", "QF_NIRA", "QF_UFNIA", "QF_UFNIRA"}
ARRAY_LIA_LOGICS = {"QF_AUFLIA", "QF_ALIA", "QF_AUFLIRA", "QF_AUFNIA", "QF_AUFNIRA", "QF_ANIA"}
IDL_LOGICS = {"QF_IDL", "QF_UFIDL"}


def logic_covers(logic, feats):
    if logic is None:
        return True
    if "quant" in feats:
        return logic in ("UFIDL",) and "lia" not in feats and "arrays" not in feats
    if logic in ARRAY_LIA_LOGICS:
        return True
    if "arrays" in feats:
        return False
    if logic in LIA_LOGICS:
        return True
    if logic in IDL_LOGICS:
        return "lia" not in feats
    return False      # real-valued, string, floating point and Horn logics never cover integer scheduling


def solve_one(spec, cfg, py_seed):
    """one configuration: outcome, failed soundness clauses, comparable optimum, checks"""
    has_obj = bool(spec.get("objectives"))
    multi = len(spec.get("objectives", [])) > 1
    feats = spec_features(spec)
    c2 = {k: v for k, v in cfg.items() if not k.startswith("_") and v is not None}
    saved = None
    if c2.get("save_intermediate_states"):
        saved = tempfile.mkdtemp(prefix="rtmon_c15_")
        c2["save_intermediate_states_path"] = saved
    res = pr.run_solve(spec, {"solver": c2, "py_seed": py_seed}, keep=True)
    out = {"outcome": res["outcome"], "exc": res.get("exc"), "failed": [], "opt": None, "clauses": {}}
    if saved:
        # what the option wrote is recorded as coverage only: C15 is about the option not changing validity and
        # optimum, the content of the files is not part of any property
        out["saved_states"] = len(os.listdir(saved))
        shutil.rmtree(saved, ignore_errors=True)
    if res["outcome"] == "sat":
        rep, _P = rs.evaluate_observed(spec, res["sched"])
        out["clauses"] = rep.counts()
        out["failed"] += [[cl, d] for cl, d in rep.failed() if cl.startswith(("C01.", "C02.", "C03.", "C04.", "C09."))]
        if has_obj:
            finished = True
            if cfg.get("optimizer") == "incremental":
                finished = bool(res["checks"]) and res["checks"][-1] == "unsat"
            comparable = finished and (not multi or cfg.get("optimizer") == "incremental"
                                       or cfg.get("optimize_priority") == "weight")
            if "nonlinear" in feats and (cfg.get("optimizer") == "optimize" or cfg.get("random_values")
                                         or cfg.get("parallel")):
                comparable = False
                out["note"] = "nonlinear_objective_not_compared"
            if cfg.get("optimizer") == "optimize" and "quant" in feats:
                comparable = False
                out["note"] = "optimize_with_quantifiers_not_compared"
            if comparable:
                out["opt"] = c07.observed_value(spec, res, res["_built"])
        # the same question asked again of the same solver object: a configuration must not turn the second answer
        # into another verdict (pareto / box with several objectives walk a list and end with failure: not asked)
        walks = cfg.get("optimizer") == "optimize" and multi and cfg.get("optimize_priority", "pareto") in ("pareto", "box")
        if not walks:
            from .. import instrument as ins
            from .. import observe as obs
            nchk = len(ins.check_results())
            try:
                with warnings.catch_warnings():
                    warnings.simplefilter("ignore")
                    sol2 = res["_solver"].solve()
                new = ins.check_results()[nchk:]
                if sol2:
                    out["again"] = "sat"
                    rep2, _P2 = rs.evaluate_observed(spec, obs.observe(res["_built"], sol2, res["_solver"]._model))
                    out["failed"] += [[cl, d] for cl, d in rep2.failed()
                                      if cl.startswith(("C01.", "C02.", "C03.", "C04.", "C09."))]
                else:
                    out["again"] = "unsat" if new and new[-1] == "unsat" else "unknown"
            except Exception as exc:  # pylint: disable=broad-except
                out["again"] = "exception:" + type(exc).__name__
    return out


def risky(cfg):
    """z3 4.12.6 segfaults natively (reproducibly, on some inputs) in Optimize.check() when assertions are
    tracked (debug=True -> assert_and_track), most often with smt.arith.random_initial_value on: these
    configurations run in a child process so that a crash is attributed and costs nothing else"""
    return cfg.get("optimizer") == "optimize" and bool(cfg.get("debug"))


def run_children(spec, jobs, rng):
    """jobs: [(idx, cfg)].  Returns {idx: result | {"outcome": "native_crash"}}"""
    import json as _json
    import os
    import subprocess
    import sys
    import tempfile
    root = os.path.dirname(os.path.dirname(os.path.dirname(os.path.abspath(__file__))))
    results = {}
    todo = list(jobs)
    while todo:
        with tempfile.TemporaryDirectory(prefix="rtmon_c15_") as d:
            jf = os.path.join(d, "job.json")
            with open(jf, "w") as f:
                _json.dump({"kind": "solve", "spec": spec, "configs": todo, "rng": rng}, f)
            env = dict(os.environ)
            env["PYTHONPATH"] = root + (os.pathsep + env["PYTHONPATH"] if env.get("PYTHONPATH") else "")
            try:
                p = subprocess.run([sys.executable, "-X", "faulthandler", "-m", "rtmon.oneshot", jf], capture_output=True,
                                   text=True, timeout=900, env=env, cwd=d)
                stdout = p.stdout
            except subprocess.TimeoutExpired as exc:
                stdout = exc.stdout.decode() if isinstance(exc.stdout, bytes) else (exc.stdout or "")
        started = None
        for line in stdout.splitlines():
            if line.startswith("START "):
                started = _json.loads(line[6:])
            elif line.startswith("RESULT "):
                idx, out = _json.loads(line[7:])
                results[idx] = out
                started = None
        if started is not None and started not in results:
            results[started] = {"outcome": "native_crash", "failed": [], "opt": None, "clauses": {}}
        remaining = [(i, c) for i, c in todo if i not in results]
        if len(remaining) == len(todo):      # no progress at all
            for i, _c in remaining:
                results[i] = {"outcome": "child_failed", "failed": [], "opt": None, "clauses": {}}
            break
        todo = remaining
    return results


def run_spec(case):
    acc = common.Acc(PREFIXES)
    spec = case["spec"]
    has_obj = bool(spec.get("objectives"))
    multi = len(spec.get("objectives", [])) > 1
    answers, again = [], []
    feats = spec_features(spec)
    cfgs = list(enumerate(configs(case["tier"], has_obj, multi)))
    child_results = run_children(spec, [(i, c) for i, c in cfgs if risky(c)], case["rng"]) if any(risky(c) for _i, c in cfgs) else {}
    for ci, cfg in cfgs:
        c2 = {k: v for k, v in cfg.items() if not k.startswith("_") and v is not None}
        r = child_results[ci] if ci in child_results else solve_one(spec, cfg, case["rng"] + ci)
        acc.executions += 1
        out = r["outcome"]
        tag = f"{cfg.get('optimizer')}|par={cfg.get('parallel')}|rnd={cfg.get('random_values')}|dbg={cfg.get('debug')}|{cfg.get('logics')}|{cfg.get('optimize_priority')}"
        acc.count(acc.outcomes, f"{out}|logics={cfg.get('logics')}")
        if out in ("native_crash", "child_failed"):
            # libz3 died: attributed, recorded, never judged
            acc.count(acc.outcomes, f"{out}:{tag}")
            continue
        if not logic_covers(cfg.get("logics"), feats):
            # the selected logic does not cover the problem: recorded, never judged or compared
            acc.count(acc.outcomes, f"out_of_fragment|{out}")
            continue
        if out in ("exception", "build_error"):
            if cfg.get("logics") is None:
                acc.violation("C15.exception", "exception", {"exc": (r.get("exc") or {}).get("type"), "debug": bool(cfg.get("debug")),
                                                             "optimizer": cfg.get("optimizer"),
                                                             "priority": cfg.get("optimize_priority")},
                              {"exc": r.get("exc"), "config": c2})
            continue
        if out in ("unknown", "nosolution"):
            continue
        acc.sigs.add(common.h([common.h(spec), cfg]))
        for k2, v2 in r.get("clauses", {}).items():
            acc.count(acc.clauses, f"{k2}@cfg", v2)
        for cl, d in r.get("failed", []):
            acc.violation("C15.invalid_under_config", "admitted-invalid",
                          {"clause": cl, "debug": bool(cfg.get("debug")), "logics": cfg.get("logics"),
                           "optimizer": cfg.get("optimizer")}, {"clause_detail": d, "config": c2})
        if r.get("note"):
            acc.count(acc.outcomes, r["note"])
        answers.append((tag, cfg, out, r.get("opt")))
        if r.get("again"):
            again.append((tag, cfg, r["again"]))
    # agreement among definite answers
    verdicts = {a[2] for a in answers}
    acc.count(acc.clauses, f"C15.feasibility_agree:{'T' if len(verdicts) <= 1 else 'F'}")
    if len(verdicts) > 1:
        sat_cfg = next(a for a in answers if a[2] == "sat")
        unsat_cfg = next(a for a in answers if a[2] == "unsat")
        acc.violation("C15.feasibility_differs", "differs",
                      {"sat_logics": sat_cfg[1].get("logics"), "unsat_logics": unsat_cfg[1].get("logics"),
                       "sat_debug": bool(sat_cfg[1].get("debug")), "unsat_debug": bool(unsat_cfg[1].get("debug"))},
                      {"sat_under": sat_cfg[0], "unsat_under": unsat_cfg[0]})
    v2 = {a[2] for a in again if a[2] in ("sat", "unsat")}
    if again:
        acc.count(acc.clauses, f"C15.feasibility_agree_when_asked_again:{'T' if len(v2) <= 1 else 'F'}")
    if len(v2) > 1:
        s_cfg = next(a for a in again if a[2] == "sat")
        u_cfg = next(a for a in again if a[2] == "unsat")
        acc.violation("C15.feasibility_differs_when_asked_again", "differs",
                      {"unsat_parallel": bool(u_cfg[1].get("parallel")), "unsat_debug": bool(u_cfg[1].get("debug")),
                       "unsat_optimizer": u_cfg[1].get("optimizer"), "unsat_random": bool(u_cfg[1].get("random_values"))},
                      {"sat_under": s_cfg[0], "unsat_under": u_cfg[0]})
    # z3.Optimize over the array / quantified buffer encodings returns non-optimal models (known finding):
    # the incremental configurations are compared among themselves, the built-in optimiser against them
    buffered = bool({"arrays", "quant"} & feats)
    opts, opts_builtin = {}, {}
    for tag, cfg, out, v in answers:
        if v is None:
            continue
        if buffered and cfg.get("optimizer") == "optimize":
            opts_builtin.setdefault(v, []).append(tag)
        else:
            opts.setdefault(v, []).append(tag)
    if has_obj:
        acc.count(acc.clauses, f"C15.optimum_agree:{'T' if len(opts) <= 1 else 'F'}")
        if len(opts) > 1:
            vals = sorted(opts)
            acc.violation("C15.optimum_differs", "differs", {"objective": "+".join(o["kind"] for o in spec["objectives"])},
                          {"values": {str(v): opts[v][:3] for v in vals}})
        if buffered and opts_builtin:
            ref = set(opts)
            same = set(opts_builtin) <= ref if ref else len(opts_builtin) <= 1
            acc.count(acc.clauses, f"C15.optimum_agree.builtin_with_buffer:{'T' if same else 'F'}")
            if not same:
                acc.violation("C15.optimum_differs", "differs",
                              {"objective": "+".join(o["kind"] for o in spec["objectives"]), "optimize_with_buffer": True},
                              {"incremental": sorted(opts), "builtin": {str(v): t[:2] for v, t in opts_builtin.items()}})
    acc.sample = {"spec": spec, "answers": [(a[0], a[2], a[3]) for a in answers[:8]], "n_configs": len(answers)}
    return acc.result()


def generate(tier, seed):
    return [{"cid": f"spec-{name}", "family": "config-grid", "kind": "c15", "spec": spec, "tier": tier, "rng": seed * 100 + i}
            for i, (name, spec) in enumerate(specs(tier, seed))]


def run_case(case):
    return run_spec(case)


def floors(tier):
    return {"distinct_nontrivial": 400, "C15.feasibility_agree:T": 15, "C15.optimum_agree:T": 5}


def shards(tier):
    return 32


CASE_SECONDS = 600
