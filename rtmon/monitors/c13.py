"""C13 — a solver object stays truthful across repeated and mixed calls."""
import itertools
import os
import random
import tempfile
import warnings

from . import common, hist
from .. import build as bld
from .. import families as fam
from .. import instrument as ins
from .. import observe as obs

import processscheduler as ps

PROPERTY = "C13"
PREFIXES = ("C13.",)
RULE = ("histories over {I initialize, X export_to_smt2, G get_parameters_description, S solve, A find_another_solution, "
        "V find_another_solution_for_variable} on ONE solver object (and two interleaved objects on one problem), "
        "exhaustive up to length 4 (quick) on small problems {no objective, single min / max objective (also over indicators with declared bounds), two weighted "
        "objectives} x {incremental, optimize}, random to length 10. Each history is checked against a sequential model "
        "whose state is the set E of timings legitimately excluded so far: a returned schedule must lie in T(P) minus E "
        "(T(P) from fresh instances), False is legitimate only when T(P) minus E is empty (Pareto mode exempt), the only "
        "legitimate exceptions are the documented 'initialize first' / 'solve first' assertion errors. distinct = distinct "
        "(problem, config, history); evidence lists distinct histories and (history-prefix, |E|) states.")
ASSUMPTIONS = ["re-initialising an already initialised solver resets the exclusions in the model (what a fresh z3 solver does)"]
EXHAUSTIVE = {"quick": False, "thorough": False}

ALPHABET = "IXGSAV"


def problems():
    W = [{"name": "w0"}]
    on = [{"task": "t0", "resource": "w0"}, {"task": "t1", "resource": "w0"}]
    base = lambda **kw: fam.base(4, [fam.fx("t0", 2), fam.fx("t1", 1)], workers=W, requirements=on, **kw)  # noqa
    ind_i = {"id": "i", "kind": "FromExpr", "name": "s0", "expr": ["start", "t0"]}
    ind_j = {"id": "j", "kind": "FromExpr", "name": "e1", "expr": ["end", "t1"]}
    tiny = lambda **kw: fam.base(3, [fam.fx("t0", 2), fam.fx("t1", 1)], workers=W, requirements=on, **kw)  # noqa
    return [
        ("tiny", tiny()),
        ("tiny_min", tiny(indicators=[ind_j], objectives=[{"kind": "MinimizeIndicator", "indicator": "j", "weight": 1}])),
        ("plain", base()),
        ("plain_opt", fam.base(3, [fam.fx("t0", 1), fam.fx("t1", 1, optional=True)])),
        ("min1", base(indicators=[ind_i], objectives=[{"kind": "MinimizeIndicator", "indicator": "i", "weight": 1}])),
        ("max1", base(indicators=[ind_j], objectives=[{"kind": "MaximizeIndicator", "indicator": "j", "weight": 1}])),
        ("makespan", base(objectives=[{"kind": "Makespan"}])),
        # two objectives that agree: the Pareto front is a single point
        ("agree2", base(indicators=[ind_i, {"id": "k", "kind": "FromExpr", "name": "e0", "expr": ["end", "t0"]}], objectives=[
            {"kind": "MaximizeIndicator", "indicator": "i", "weight": 1},
            {"kind": "MaximizeIndicator", "indicator": "k", "weight": 1}])),
        ("weighted2", base(indicators=[ind_i, ind_j], objectives=[
            {"kind": "MaximizeIndicator", "indicator": "i", "weight": 2},
            {"kind": "MaximizeIndicator", "indicator": "j", "weight": 1}])),
        # indicators with declared bounds equal to their true range: the incremental optimiser stops as soon as the
        # incumbent sits on the bound (a separate exit from its loop), after one or more improvement steps
        ("max1_bounded", base(indicators=[dict(ind_j, bounds=[1, 4])],
                              objectives=[{"kind": "MaximizeIndicator", "indicator": "j", "weight": 1}])),
        ("min1_bounded", base(indicators=[dict(ind_j, bounds=[1, 4])],
                              objectives=[{"kind": "MinimizeIndicator", "indicator": "j", "weight": 1}])),
        ("max_start_bounded", fam.base(4, [fam.fx("t0", 2)], indicators=[dict(ind_i, bounds=[0, 2])],
                                       objectives=[{"kind": "MaximizeIndicator", "indicator": "i", "weight": 1}])),
        # utilisation carries the library's own bounds (0, 100); a variable task can fill the horizon: optimum 100
        ("utilization", fam.base(3, [fam.vr("t0", 1, 3)], workers=W, requirements=[{"task": "t0", "resource": "w0"}],
                                 objectives=[{"kind": "ResourceUtilization", "resource": "w0"}])),
    ]


CONFIGS = [{"optimizer": "incremental"}, {"optimizer": "optimize", "optimize_priority": "lex"},
           {"optimizer": "optimize", "optimize_priority": "weight"},
           # the default priority of the built-in optimiser (pareto; with ONE objective there is no front to walk:
           # repeated solves keep answering) and box
           {"optimizer": "optimize"}, {"optimizer": "optimize", "optimize_priority": "box"},
           # an optimisation cut short by its iteration budget leaves nothing behind either
           {"optimizer": "incremental", "max_iter": 1}, {"optimizer": "incremental", "max_iter": 2}]


class Model:
    """sequential model of one solver object"""

    def __init__(self, T):
        self.T = T
        self.E = set()
        self.initialized = False
        self.cur = None
        self.lenient = False
        self.excluded_any = False
        self.solved_once = False

    def remaining(self):
        return self.T - self.E


def run_histories(case):
    acc = common.Acc(PREFIXES)
    spec, cfg = case["spec"], case["solver"]
    T, unknown, nref = hist.reference_set(spec)
    acc.executions += nref
    if unknown:
        acc.inconclusive.append("unknown in reference set")
        return acc.result()
    pareto = (cfg.get("optimizer") == "optimize" and cfg.get("optimize_priority", "pareto") == "pareto"
              and len(spec.get("objectives", [])) > 1)
    states = set()
    tmpdir = tempfile.mkdtemp(prefix="rtmon_c13_")
    try:
        for hi, history in enumerate(case["histories"]):
            ins.reset_case()
            with warnings.catch_warnings():
                warnings.simplefilter("ignore")
                b = bld.build(spec)
            nobj = len(set(tok[0] for tok in history))
            solvers, models = {}, {}
            trace = []
            broken = False
            for pos, (who, op) in enumerate(history):
                try:
                    if who not in solvers:
                        with warnings.catch_warnings():
                            warnings.simplefilter("ignore")
                            solvers[who] = ps.SchedulingSolver(problem=b.problem, max_time=30, **cfg)
                        models[who] = Model(T)
                    s, m = solvers[who], models[who]
                    feats = {"op": op, "objective": "+".join(o["kind"] for o in spec.get("objectives", [])) or "none",
                             "optimizer": cfg.get("optimizer"), "solver_objects": nobj,
                             "priority": (cfg.get("optimize_priority", "pareto")
                                          if cfg.get("optimizer") == "optimize" else None),
                             "multi_objective": len(spec.get("objectives", [])) > 1,
                             "after_solve": any(o == "S" for _w, o in history[:pos] if _w == who)}
                    nchk = len(ins.check_results())
                    expect_exc = None
                    if op == "G" and not m.initialized:
                        expect_exc = "AssertionError"
                    if op in ("A", "V") and m.cur is None:
                        expect_exc = "AssertionError"
                    ret = None
                    with warnings.catch_warnings():
                        warnings.simplefilter("ignore")
                        if op == "I":
                            s.initialize()
                        elif op == "X":
                            s.export_to_smt2(os.path.join(tmpdir, f"h{hi}.smt2"))
                        elif op == "G":
                            s.get_parameters_description()
                        elif op == "S":
                            ret = s.solve()
                        elif op == "A":
                            ret = s.find_another_solution()
                        elif op == "V":
                            ret = s.find_another_solution_for_variable(b.tasks["t0"]._start)
                    acc.executions += 1
                    if expect_exc:
                        acc.violation("C13.missing_documented_error", "accepted", feats, {"history": history[:pos + 1]})
                        broken = True
                        break
                except Exception as exc:  # pylint: disable=broad-except
                    acc.executions += 1
                    if expect_exc and type(exc).__name__ == expect_exc:
                        trace.append((who, op, "documented-error"))
                        acc.count(acc.clauses, "C13.documented_error:T")
                        continue
                    acc.violation("C13.exception", "exception", dict(feats, exc=type(exc).__name__),
                                  {"msg": str(exc)[:300], "history": history[:pos + 1]})
                    broken = True
                    break
                # invariant at the hook: no optimisation frame is left on the z3 solver when a call returns
                if s._solver is not None:
                    sid = id(s._solver)
                    depth = sum(1 for e in ins.TRACE if e.get("solver") == sid and e["op"] == "push") - \
                        sum(1 for e in ins.TRACE if e.get("solver") == sid and e["op"] == "pop")
                    acc.count(acc.clauses, f"C13.push_depth_zero_after_call:{'T' if depth == 0 else 'F'}")
                    if depth != 0:
                        acc.violation("C13.frames_left_on_solver", "state-leak", feats,
                                      {"history": history[:pos + 1], "depth": depth})
                        broken = True
                        break
                # model update + judgement
                if op in ("I", "X"):
                    if op == "I" and m.initialized:
                        m.lenient = m.lenient or m.excluded_any
                        m.E = set()
                    m.initialized = True
                    trace.append((who, op, "ok"))
                    continue
                if op == "G":
                    trace.append((who, op, "ok"))
                    continue
                m.initialized = True
                if op == "A":
                    m.E.add(m.cur)
                    m.excluded_any = True
                elif op == "V":
                    val = dict((n, st) for n, _sc, st, _e in m.cur)["t0"]
                    m.E |= {k for k in T if dict((n, st) for n, _sc, st, _e in k)["t0"] == val}
                    m.excluded_any = True
                new_checks = ins.check_results()[nchk:]
                rem = m.remaining()
                if ret is False or ret is None:
                    trace.append((who, op, "False"))
                    if new_checks and new_checks[-1] == "unknown":
                        acc.inconclusive.append("unknown in history")
                        broken = True
                        break
                    legit = not rem
                    if pareto and op == "S" and m.solved_once:
                        # walking the Pareto front ends with a failure by design - once it has started: the FIRST
                        # solve of a feasible problem has a first point to return, whatever was called before
                        legit = True
                    if m.lenient:
                        legit = True
                    acc.count(acc.clauses, f"C13.false_only_when_exhausted:{'T' if legit else 'F'}")
                    if not legit:
                        acc.violation("C13.false_on_feasible", "lost", feats,
                                      {"history": history[:pos + 1], "remaining": len(rem), "reference": len(T),
                                       "trace": trace[-5:]})
                        broken = True
                        break
                else:
                    S = obs.observe(b, ret, s._model)
                    k = hist.key_of_sched(S)
                    trace.append((who, op, "solution"))
                    ok = k in rem
                    if op == "S" and not ok and k in T:
                        # the statement only asks a repeated solve() for a VALID schedule; whether it may hand out one
                        # that an earlier request excluded is left open (C12 binds the find_another_* requests only)
                        acc.count(acc.clauses, "C13.solve_returned_excluded:B")
                        ok = True
                    acc.count(acc.clauses, f"C13.returned_in_T_minus_E:{'T' if ok else 'F'}")
                    if not ok:
                        acc.violation("C13.returned_outside_T_minus_E",
                                      "excluded-returned" if k in T else "invalid-returned", feats,
                                      {"history": history[:pos + 1], "timing": k, "in_T": k in T})
                        broken = True
                        break
                    m.cur = k
                    if op == "S":
                        m.solved_once = True
                states.add((tuple(history[:pos + 1]), len(m.E)))
            acc.sigs.add(common.h([common.h(spec), cfg, history]))
            if acc.sample is None and not broken and any(t[2] == "solution" for t in trace):
                acc.sample = {"problem_objectives": spec.get("objectives"), "config": cfg, "history": history,
                              "trace": trace, "reference_size": len(T)}
    finally:
        import shutil
        shutil.rmtree(tmpdir, ignore_errors=True)
    acc.count(acc.outcomes, "histories", len(case["histories"]))
    acc.count(acc.outcomes, "model_states", len(states))
    return acc.result()


def all_histories(maxlen):
    out = []
    for n in range(1, maxlen + 1):
        for combo in itertools.product(ALPHABET, repeat=n):
            if "S" not in combo and n > 2:
                continue     # histories that never solve say little
            out.append([("a", op) for op in combo])
    return out


def generate(tier, seed):
    cases = []
    full = all_histories(4 if tier == "quick" else 5)
    rng = random.Random(seed)
    for pname, spec in problems():
        cfgs = CONFIGS if spec.get("objectives") else [{}, {"debug": True}]
        for ci, cfg in enumerate(cfgs):
            if len(spec.get("objectives", [])) < 2 and cfg.get("optimize_priority") == "weight":
                continue
            hs = list(full)
            if tier == "quick":
                hs = rng.sample(hs, 260)
            # random longer histories
            for _ in range(40 if tier == "quick" else 300):
                n = rng.randint(5, 10 if tier == "quick" else 15)
                hs.append([("a", rng.choice("SSAAVXGI")) for _ in range(n)])
            # two solver objects on one problem, interleaved
            for _ in range(40 if tier == "quick" else 300):
                n = rng.randint(2, 8)
                hs.append([(rng.choice("ab"), rng.choice("SSAVX")) for _ in range(n)])
            chunk = 50
            for k in range(0, len(hs), chunk):
                cases.append({"cid": f"{pname}-{ci}-{k // chunk}", "family": f"problem:{pname}", "kind": "c13",
                              "spec": spec, "solver": cfg, "histories": hs[k:k + chunk]})
    return cases


def run_case(case):
    return run_histories(case)


def floors(tier):
    return {"distinct_nontrivial": 1500, "C13.returned_in_T_minus_E:T": 1500, "C13.false_only_when_exhausted:T": 50}


def shards(tier):
    return 64
