"""C17 — the Gantt chart draws exactly the reported assignments at the right place."""
import copy
import math
import os
import random
import tempfile
import warnings

import matplotlib
matplotlib.use("Agg")
import matplotlib.pyplot as plt  # noqa: E402

from . import common, c16  # noqa: E402
from .. import cands as cd  # noqa: E402
from .. import probe as pr  # noqa: E402

import processscheduler as ps  # noqa: E402

PROPERTY = "C17"
PREFIXES = ("C17.",)
RULE = ("solutions as in C16 (optional and zero-duration tasks, cumulative workers, selections, buffers, indicators, "
        "calendar times), steered to several valid placements, are rendered with render_gantt_matplotlib(show_plot=False) "
        "under the Agg backend in both modes and with/without indicators; the artists are read back: the multiset of bar "
        "rectangles (row, x0, x1) must equal the reported assignments (resource view) / scheduled tasks (task view), "
        "zero-length items are markers centred on their instant (width <= 0.2), labels are centred on their bar and carry "
        "the right text, row labels match, the buffer axes plot the reported step function. distinct = (spec, placement, mode).")
ASSUMPTIONS = ["buffers whose reported change times include the negative instant of an unscheduled task are band"]
EXHAUSTIVE = {"quick": False, "thorough": False}

EPS = 1e-6


def read_axes(fig):
    axes = fig.axes
    gantt = axes[0]
    bars = []
    for coll in gantt.collections:
        for path in coll.get_paths():
            ext = path.get_extents()
            bars.append((round(ext.x0, 4), round(ext.x1, 4), round(ext.y0, 4), round(ext.y1, 4)))
    texts = [(round(t.get_position()[0], 4), round(t.get_position()[1], 4), t.get_text(), t.get_ha(), t.get_va())
             for t in gantt.texts]
    yl = [t.get_text() for t in gantt.get_yticklabels()]
    lines = []
    if len(axes) > 1:
        for ln in axes[1].lines:
            xs, ys = list(ln.get_xdata()), list(ln.get_ydata())
            segs = []
            for k in range(0, len(xs), 3):
                if k + 1 < len(xs):
                    segs.append((float(xs[k]), float(xs[k + 1]), float(ys[k])))
            lines.append((ln.get_label(), segs))
    return {"bars": bars, "texts": texts, "yticklabels": yl, "lines": lines, "xlim": tuple(gantt.get_xlim()),
            "title": gantt.get_title()}


def expected(S, mode):
    bars, texts, rows = [], [], []
    if mode == "Resource":
        for i, (res, lst) in enumerate(S["assign"].items()):
            rows.append(res)
            for tn, s, e in lst:
                if e - s == 0:
                    bars.append(("marker", i, s))
                else:
                    bars.append(("bar", i, s, e))
                texts.append((s + (e - s) / 2.0, 2 * i + 1, tn))
    else:
        sched = [(n, t) for n, t in S["tasks"].items() if t["scheduled"]]
        for i, (n, t) in enumerate(sched):
            rows.append(n)
            if t["end"] - t["start"] == 0:
                bars.append(("marker", i, t["start"]))
            else:
                bars.append(("bar", i, t["start"], t["end"]))
            txt = ",".join(t["assigned"]) if t["assigned"] else r"($\emptyset$)"
            texts.append((t["start"] + (t["end"] - t["start"]) / 2.0, 2 * i + 1, txt))
    return bars, texts, rows


def check_render(acc, S, sol, mode, show_ind, feats, extra=None):
    plt.close("all")
    try:
        with warnings.catch_warnings():
            warnings.simplefilter("ignore")
            kw = dict(extra or {})
            if mode is not None:
                kw["render_mode"] = mode
            else:
                mode = "Resource"       # the documented default
            ps.render_gantt_matplotlib(sol, show_plot=False, show_indicators=show_ind, **kw)
        fig = plt.gcf()
        got = read_axes(fig)
        if kw.get("fig_filename"):
            sz = os.path.getsize(kw["fig_filename"]) if os.path.exists(kw["fig_filename"]) else 0
            acc.count(acc.clauses, f"C17.file_written:{'T' if sz > 0 else 'F'}")
            if not sz:
                acc.violation("C17.file_not_written", "missing", dict(feats, mode=mode), {"file": kw["fig_filename"]})
    except Exception as exc:  # pylint: disable=broad-except
        plt.close("all")
        acc.violation("C17.exception", "exception", dict(feats, exc=type(exc).__name__, mode=mode), {"msg": str(exc)[:300]})
        return
    plt.close("all")
    acc.executions += 1
    eff_mode = mode if S["assign"] else "Task"
    ebars, etexts, rows = expected(S, eff_mode)
    ok = True

    def bad(what, **kw):
        nonlocal ok
        ok = False
        acc.violation("C17." + what, "wrong-geometry", {"mode": eff_mode}, dict(kw, mode=eff_mode))

    # bars
    want = []
    for b in ebars:
        if b[0] == "bar":
            want.append(("bar", round(float(b[2]), 4), round(float(b[3]), 4), 2.0 * b[1], 2.0 * b[1] + 2))
        else:
            want.append(("marker", float(b[2]), 2.0 * b[1], 2.0 * b[1] + 2))
    remaining = list(got["bars"])
    for w in want:
        hit = None
        for g in remaining:
            x0, x1, y0, y1 = g
            if abs(y0 - w[-2]) > 1e-3 or abs(y1 - w[-1]) > 1e-3:
                continue
            if w[0] == "bar" and abs(x0 - w[1]) < 1e-3 and abs(x1 - w[2]) < 1e-3:
                hit = g
                break
            if w[0] == "marker" and abs((x0 + x1) / 2.0 - w[1]) < 1e-3 and 0 < (x1 - x0) <= 0.2 + 1e-9:
                hit = g
                break
        if hit is None:
            bad("bar_missing", want=w, drawn=got["bars"][:12])
        else:
            remaining.remove(hit)
    if remaining:
        bad("bar_extra", extra=remaining[:6], expected=want[:12])
    # labels
    rem_t = list(got["texts"])
    for x, y, txt in etexts:
        hit = next((t for t in rem_t if abs(t[0] - x) < 1e-3 and abs(t[1] - y) < 1e-3 and t[2] == txt), None)
        if hit is None:
            bad("label_missing", want=[x, y, txt], drawn=rem_t[:8])
        else:
            rem_t.remove(hit)
            if hit[3] != "center" or hit[4] != "center":
                bad("label_not_centred", label=hit)
    if rem_t:
        bad("label_extra", extra=rem_t[:6])
    if got["yticklabels"] != rows:
        bad("row_labels", got=got["yticklabels"], want=rows)
    # buffers
    if S["buffers"]:
        if any(t < 0 for b in S["buffers"].values() for t in b["times"]):
            acc.count(acc.clauses, "C17.buffers:B")
        else:
            wantl = []
            for n, b in S["buffers"].items():
                xs = [0] + list(b["times"]) + [S["horizon"]]
                wantl.append((n, [(float(xs[i]), float(xs[i + 1]), float(y)) for i, y in enumerate(b["level"])]))
            gl = [(lab, [(a, b2, c) for a, b2, c in segs if not (math.isnan(a) or math.isnan(c))]) for lab, segs in got["lines"]]
            if gl != wantl:
                bad("buffer_steps", got=gl, want=wantl)
            acc.count(acc.clauses, f"C17.buffers:{'T' if gl == wantl else 'F'}")
    acc.count(acc.clauses, f"C17.{eff_mode}:{'T' if ok else 'F'}")


def run_render(case):
    acc = common.Acc(PREFIXES)
    spec = case["spec"]
    rng = random.Random(case["rng"])
    cs = [c for c in cd.enumerate_candidates(spec, wide=False, limit=3000, rng=rng)
          if cd.classify(spec, c)[0] in ("valid", "band")]
    if len(cs) > case["limit"]:
        cs = rng.sample(cs, case["limit"])
    plans = [{"pins": []}] + [{"pins": pr.candidate_pins(spec, c)} for c in cs]
    for i, plan in enumerate(plans):
        res = pr.run_solve(spec, plan, keep=True)
        if res["outcome"] != "sat":
            acc.count(acc.outcomes, res["outcome"])
            continue
        acc.count(acc.outcomes, "sat")
        S, sol = res["sched"], res["_solution"]
        feats = {"any_unscheduled": any(not t["scheduled"] for t in S["tasks"].values()),
                 "has_buffer": bool(S["buffers"]), "zero_len": any(t["start"] == t["end"] and t["scheduled"]
                                                                   for t in S["tasks"].values())}
        for mode in ("Resource", "Task"):
            for show_ind in ((True, False) if i == 0 else (True,)):
                check_render(acc, S, sol, mode, show_ind, feats)
                acc.sigs.add(common.h([common.h(spec), i, mode, show_ind, case["rng"]]))
        if i <= 1:
            # the other documented arguments: default render mode (argument omitted), another figure size, a file
            with tempfile.TemporaryDirectory(prefix="rtmon_c17_") as td:
                check_render(acc, S, sol, None, True, feats)
                check_render(acc, S, sol, "Task", False, feats, {"fig_size": (4, 3)})
                check_render(acc, S, sol, None, False, feats, {"fig_size": (12, 2),
                                                               "fig_filename": os.path.join(td, "g.svg")})
                check_render(acc, S, sol, "Task", True, feats, {"fig_filename": os.path.join(td, "g.png")})
        if acc.sample is None:
            acc.sample = {"spec": spec, "solution_tasks": {n: [t["scheduled"], t["start"], t["end"]] for n, t in S["tasks"].items()},
                          "assign": S["assign"], "modes": ["Resource", "Task"]}
    if not acc.executions and not acc.violations:
        acc.empty_ok = True
    return acc.result()


def generate(tier, seed):
    cases = []
    for i, (name, spec) in enumerate(c16.export_specs(tier, seed)):
        cases.append({"cid": f"render-{name}", "family": "render", "kind": "render", "spec": spec,
                      "limit": 3 if tier == "quick" else 25, "rng": seed * 100 + i})
    return cases


def run_case(case):
    return run_render(case)


def floors(tier):
    return {"distinct_nontrivial": 150, "C17.Resource:T": 60, "C17.Task:T": 80, "C17.buffers:T": 10}


def shards(tier):
    return 48
