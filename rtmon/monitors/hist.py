"""Shared machinery for the history monitors (C12, C13): the reference set T(P)
of distinct valid timings, obtained from FRESH single-use solver instances, and
the timing key of a returned solution."""
import itertools

from .. import cands as cd
from .. import probe as pr


def timing_grid(spec):
    """every task-timing combination of the valid-domain grid (selections and
    dynamic spans are left to the solver: they are not part of a timing)"""
    H = spec["problem"]["horizon"]
    names = [t["name"] for t in spec["tasks"]]
    per_task = [cd.task_options(t, H, wide=False) for t in spec["tasks"]]
    for combo in itertools.product(*per_task):
        cand = {"horizon": H, "tasks": {}, "chosen": {}, "dyn": {}}
        for n, (sc, s, e) in zip(names, combo):
            cand["tasks"][n] = ({"scheduled": True, "start": s, "end": e} if sc else
                                {"scheduled": False, "start": -1, "end": -1})
        yield cand


def key_of_candidate(cand):
    return tuple(sorted((n, t["scheduled"], t["start"] if t["scheduled"] else None,
                         t["end"] if t["scheduled"] else None) for n, t in cand["tasks"].items()))


def key_of_sched(S):
    return tuple(sorted((n, t["scheduled"], t["start"] if t["scheduled"] else None,
                         t["end"] if t["scheduled"] else None) for n, t in S["tasks"].items()))


def reference_set(spec, counter=None):
    """T(P): timings admitted by fresh instances.  returns (set, n_unknown, n_exec)"""
    s0 = dict(spec, objectives=[])
    T, unknown, n = set(), 0, 0
    for cand in timing_grid(s0):
        res = pr.run_solve(s0, {"pins": pr.candidate_pins(s0, cand, pin_selections=False, pin_dynamic=False)})
        n += 1
        if res["outcome"] == "sat":
            T.add(key_of_candidate(cand))
        elif res["outcome"] != "unsat":
            unknown += 1
    return T, unknown, n
