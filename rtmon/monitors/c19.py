"""C19 — infeasibility diagnosis names constraints that really conflict."""
import copy
import random
import warnings

from . import common
from .. import build as bld
from .. import families as fam
from .. import instrument as ins
from .. import observe as obs
from .. import probe as pr
from .. import refsem as rs

import processscheduler as ps
from processscheduler.constraint import Constraint

PROPERTY = "C19"
PREFIXES = ("C19.",)
RULE = ("infeasible Specs made of 1-3 mutually conflicting user constraints of every kind (start/end pins, precedence "
        "cycles, sync + non-overlap, resource clashes, buffer shortages, optional-task rules) plus 0-6 irrelevant satisfiable "
        "constraints on other tasks, with constraint names that are prefixes of one another, are solved with debug=True. The "
        "Constraint OBJECTS the solver lists (captured from its print calls, not re-parsed text) must be constraints of the "
        "problem, and the Spec reduced to the listed constraints + every task, resource, requirement and buffer rule must be "
        "unsat in a fresh non-debug instance; debug and non-debug verdicts must agree; schedules returned in debug mode "
        "are judged by the soundness clauses. Runs that print no diagnosis section are counted, not judged. "
        "distinct = (spec, config).")
ASSUMPTIONS = ["buffer load/unload declarations count as basic buffer rules and are kept in the reduced Spec"]
EXHAUSTIVE = {"quick": False, "thorough": False}


def conflict_patterns():
    return [
        ("two_pins", [{"kind": "TaskStartAt", "task": "t0", "value": 2}, {"kind": "TaskStartAt", "task": "t0", "value": 3}]),
        ("cycle", [{"kind": "TaskPrecedence", "before": "t0", "after": "t1", "mode": "strict"},
                   {"kind": "TaskPrecedence", "before": "t1", "after": "t0", "mode": "lax"}]),
        ("late_start", [{"kind": "TaskStartAfter", "task": "t0", "value": 7, "mode": "lax"}]),
        ("early_end", [{"kind": "TaskEndBefore", "task": "t1", "value": 1, "mode": "lax"}]),
        ("sync_vs_nooverlap", [{"kind": "TasksStartSynced", "t1": "t0", "t2": "t1"},
                               {"kind": "TasksDontOverlap", "t1": "t0", "t2": "t1"}]),
        ("three_way", [{"kind": "TaskStartAt", "task": "t0", "value": 4},
                       {"kind": "TaskPrecedence", "before": "t0", "after": "t1", "mode": "lax"},
                       {"kind": "TaskEndBefore", "task": "t1", "value": 7, "mode": "lax"}]),
        ("worker_clash", [{"kind": "TaskStartAt", "task": "t0", "value": 0}, {"kind": "TaskStartAt", "task": "t1", "value": 1}]),
        ("group_window", [{"kind": "UnorderedTaskGroup", "tasks": ["t0", "t1"], "interval": [0, 3]},
                          {"kind": "TaskStartAfter", "task": "t1", "value": 2, "mode": "lax"}]),
        ("optional_rules", [{"kind": "OptionalTaskForceSchedule", "task": "o", "value": True},
                            {"kind": "TaskStartAt", "task": "o", "value": 8}]),
        ("count_in_interval", [{"kind": "ScheduleNTasksInTimeIntervals", "tasks": ["t0", "t1"], "n": 2,
                                "intervals": [[0, 3]], "mode": "exact"}]),
        ("logic", [{"kind": "Not", "arg": {"kind": "expr", "expr": [">=", ["start", "t0"], 0]}}]),
        # conflicts that go through a NON-LAST assertion of a constraint made of several assertions
        ("unavailable_first_interval", [{"kind": "ResourceUnavailable", "resource": "w0", "intervals": [[0, 6], [7, 8]]},
                                        {"kind": "TaskEndBefore", "task": "t0", "value": 5, "mode": "lax"}]),
        ("workload_first_interval", [{"kind": "WorkLoad", "resource": "w0", "map": [[0, 4, 0], [6, 8, 1]], "mode": "max"},
                                     {"kind": "TaskEndBefore", "task": "t0", "value": 3, "mode": "lax"}]),
        ("contiguous_vs_pins", [{"kind": "TasksContiguous", "tasks": ["t0", "t1"]},
                                {"kind": "TaskStartAt", "task": "t0", "value": 0},
                                {"kind": "TaskStartAt", "task": "t1", "value": 5}]),
        ("or_vs_pin", [{"kind": "Or", "args": [{"kind": "TaskStartAt", "task": "t0", "value": 1},
                                               {"kind": "TaskStartAt", "task": "t0", "value": 2}]},
                       {"kind": "TaskStartAt", "task": "t0", "value": 5}]),
        ("forced_optional_constraint", [{"kind": "TaskStartAt", "task": "t0", "value": 1, "optional": True, "_oid": "oc"},
                                        {"kind": "ForceApplyNOptionalConstraints", "constraints": ["oc"], "n": 1, "mode": "exact"},
                                        {"kind": "TaskStartAfter", "task": "t0", "value": 3, "mode": "lax"}]),
        ("buffer_short", [{"kind": "TaskStartAt", "task": "t0", "value": 0}, {"kind": "TaskStartAt", "task": "t1", "value": 3}]),
    ]


def irrelevant_pool():
    return [{"kind": "TaskStartAfter", "task": "t2", "value": 1, "mode": "lax"},
            {"kind": "TaskPrecedence", "before": "t2", "after": "t3", "mode": "lax"},
            {"kind": "TaskEndBefore", "task": "t3", "value": 8, "mode": "lax"},
            {"kind": "TasksDontOverlap", "t1": "t2", "t2": "t3"},
            {"kind": "TaskStartAfter", "task": "t3", "value": 0, "mode": "lax"},
            {"kind": "ScheduleNTasksInTimeIntervals", "tasks": ["t2", "t3"], "n": 1, "intervals": [[0, 4]], "mode": "min"},
            {"kind": "Or", "args": [{"kind": "TaskStartAt", "task": "t2", "value": 1},
                                    {"kind": "TaskStartAt", "task": "t2", "value": 2}]}]


NAMES = ["c", "c1", "c10", "c1_x", "c_", "cc", "c11", "C1", "c 1", "c12"]


def make_spec(pattern, conflict, n_irr, rng, feasible=False):
    tasks = [fam.fx("t0", 2), fam.fx("t1", 3), fam.fx("t2", 1), fam.fx("t3", 2), fam.fx("o", 1, optional=True)]
    spec = fam.base(8, tasks)
    if pattern in ("worker_clash", "unavailable_first_interval", "workload_first_interval"):
        spec["workers"] = [{"name": "w0"}]
        spec["requirements"] = [{"task": "t0", "resource": "w0"}, {"task": "t1", "resource": "w0"}]
    cons = []
    if pattern == "buffer_short":
        spec["buffers"] = [{"name": "bf", "initial": 1, "lower": 0}]
        cons += [{"id": "bu", "kind": "TaskUnloadBuffer", "task": "t0", "buffer": "bf", "quantity": 2},
                 {"id": "bl", "kind": "TaskLoadBuffer", "task": "t1", "buffer": "bf", "quantity": 1}]
    user = [copy.deepcopy(c) for c in (conflict if not feasible else conflict[:0])]
    user += [copy.deepcopy(c) for c in rng.sample(irrelevant_pool(), n_irr)]
    rng.shuffle(user)
    names = rng.sample(NAMES, len(user))
    for c, nm in zip(user, names):
        c["id"] = nm
        c["name"] = nm
    # optional constraints referenced by a force-apply rule: rewrite the reference to the drawn id, keep them before it
    oid = {c.pop("_oid"): c["id"] for c in user if "_oid" in c}
    for c in user:
        if c["kind"] == "ForceApplyNOptionalConstraints":
            c["constraints"] = [oid[x] for x in c["constraints"]]
    user.sort(key=lambda c: c["kind"] == "ForceApplyNOptionalConstraints")
    spec["constraints"] = cons + user
    return spec


def listed_constraints(b):
    """Constraint objects passed to the solver module's print, in order"""
    out = []
    diag = False
    for args in ins.PRINTED:
        if args and isinstance(args[0], str) and "Unsatisfied constraints" in args[0]:
            diag = True
        for a in args:
            if isinstance(a, Constraint):
                out.append(a)
    return diag, out


def run_diag(case):
    acc = common.Acc(PREFIXES)
    spec = case["spec"]
    for cfg in case["configs"]:
        ins.reset_case()
        with warnings.catch_warnings():
            warnings.simplefilter("ignore")
            try:
                b = bld.build(spec)
            except bld.BuildError as exc:
                acc.inconclusive.append(f"build: {exc}"[:120])
                return acc.result()
            solver = ps.SchedulingSolver(problem=b.problem, debug=True, max_time=30, **cfg)
            try:
                sol = solver.solve()
            except Exception as exc:  # pylint: disable=broad-except
                acc.violation("C19.exception", "exception", {"exc": type(exc).__name__}, {"msg": str(exc)[:300], "config": cfg})
                continue
        acc.executions += 1
        checks = ins.check_results()
        diag, listed = listed_constraints(b)
        dbg_out = "sat" if sol else ("unsat" if checks and checks[-1] == "unsat" else "unknown")
        S = obs.observe(b, sol, solver._model) if sol else None
        # non-debug verdict
        plain = pr.run_solve(spec, {"solver": dict(cfg, max_time=30)})
        acc.executions += 1
        acc.sigs.add(common.h([common.h(spec), cfg]))
        if dbg_out in ("sat", "unsat") and plain["outcome"] in ("sat", "unsat"):
            same = dbg_out == plain["outcome"]
            acc.count(acc.clauses, f"C19.verdict_same_as_non_debug:{'T' if same else 'F'}")
            if not same:
                acc.violation("C19.debug_changes_verdict", "differs", {"debug": dbg_out, "plain": plain["outcome"]},
                              {"config": cfg})
        else:
            acc.inconclusive.append(f"{dbg_out}/{plain['outcome']}")
            continue
        if dbg_out == "sat":
            rep, _P = rs.evaluate_observed(spec, S)
            acc.add_report(rep, "debug")
            for cl, d in rep.failed():
                if cl.startswith(("C01.", "C02.", "C03.", "C04.", "C09.")):
                    acc.violation("C19.debug_schedule_invalid", "admitted-invalid", {"clause": cl}, {"clause_detail": d})
            continue
        if not diag:
            acc.count(acc.outcomes, "no_diagnosis")
            continue
        acc.count(acc.outcomes, f"diagnosis_listed={min(len(listed), 4)}")
        by_obj = {id(o): cid for cid, o in b.constraints.items()}
        problem_objs = {id(o) for o in b.problem.constraints.values()}
        ids = []
        ok_member = True
        for o in listed:
            if id(o) not in problem_objs:
                ok_member = False
                acc.violation("C19.listed_not_a_problem_constraint", "foreign", {}, {"listed": str(getattr(o, "name", o))[:80]})
            elif id(o) in by_obj:
                ids.append(by_obj[id(o)])
        acc.count(acc.clauses, f"C19.listed_are_problem_constraints:{'T' if ok_member else 'F'}")
        # reduced Spec: listed constraints + all basic rules
        keep = set(ids)
        reduced = copy.deepcopy(spec)
        reduced["constraints"] = [c for c in spec["constraints"]
                                  if c.get("id") in keep or c["kind"] in ("TaskLoadBuffer", "TaskUnloadBuffer")]
        # a listed force-apply rule over an optional constraint that is NOT listed only constrains that constraint's
        # applied flag: the unlisted one is replaced by a vacuous optional constraint under the same id
        kept_ids = {c.get("id") for c in reduced["constraints"]}
        for c in list(reduced["constraints"]):
            if c["kind"] == "ForceApplyNOptionalConstraints":
                for ref in c["constraints"]:
                    if ref not in kept_ids:
                        orig = next(x for x in spec["constraints"] if x.get("id") == ref)
                        tname = orig.get("task") or spec["tasks"][0]["name"]
                        reduced["constraints"].insert(0, {"id": ref, "name": orig.get("name"), "kind": "TaskStartAfter",
                                                          "task": tname, "value": 0, "mode": "lax", "optional": True})
                        kept_ids.add(ref)
        red = pr.run_solve(reduced, {"solver": {"max_time": 30}})
        acc.executions += 1
        if red["outcome"] not in ("sat", "unsat"):
            acc.inconclusive.append(f"reduced {red['outcome']}")
            continue
        conflict = red["outcome"] == "unsat"
        acc.count(acc.clauses, f"C19.listed_set_conflicts:{'T' if conflict else 'F'}")
        if not conflict:
            acc.violation("C19.listed_constraints_do_not_conflict", "satisfiable",
                          {"pattern": case.get("pattern"), "n_listed": min(len(ids), 4)},
                          {"listed": ids, "all_user_constraints": [c.get("id") for c in spec["constraints"]],
                           "config": cfg})
        if acc.sample is None:
            acc.sample = {"spec_constraints": spec["constraints"], "listed": ids, "reduced_verdict": red["outcome"],
                          "config": cfg}
    return acc.result()


def run_debug_diff(case):
    """debug mode never changes the verdict: the same pinned problems under debug=True and debug=False"""
    from . import hist
    from .. import cands as cd
    acc = common.Acc(PREFIXES)
    spec = case["spec"]
    rng = random.Random(case["rng"])
    grid = list(hist.timing_grid(spec))
    if len(grid) > case["limit"]:
        grid = rng.sample(grid, case["limit"])
    for c in grid:
        pins = pr.candidate_pins(spec, c, pin_selections=False, pin_dynamic=False)
        a = pr.run_solve(spec, {"pins": pins, "solver": {"debug": True}})
        b = pr.run_solve(spec, {"pins": pins, "solver": {}})
        acc.executions += 2
        acc.count(acc.outcomes, f"debug:{a['outcome']}/plain:{b['outcome']}")
        if a["outcome"] in ("sat", "unsat") and b["outcome"] in ("sat", "unsat"):
            acc.sigs.add(common.h([common.h(spec), cd.cand_key(c)]))
            same = a["outcome"] == b["outcome"]
            acc.count(acc.clauses, f"C19.pinned_verdict_same_as_non_debug:{'T' if same else 'F'}")
            if not same:
                acc.violation("C19.debug_changes_verdict", "differs",
                              {"debug": a["outcome"], "plain": b["outcome"], "kinds": sorted(common.kinds_in(spec))[:4]},
                              {"candidate": c})
            if a["outcome"] == "sat":
                rep, _P = rs.evaluate_observed(spec, a["sched"])
                for cl, d in rep.failed():
                    if cl.startswith(("C01.", "C02.", "C03.", "C04.", "C09.")):
                        acc.violation("C19.debug_schedule_invalid", "admitted-invalid", {"clause": cl}, {"clause_detail": d})
        elif "exception" in (a["outcome"], b["outcome"]) or "build_error" in (a["outcome"], b["outcome"]):
            acc.violation("C19.exception", "exception", {"exc": (a.get("exc") or b.get("exc") or {}).get("type")},
                          {"debug": a.get("exc"), "plain": b.get("exc")})
        else:
            acc.inconclusive.append(f"{a['outcome']}/{b['outcome']}")
    acc.sample = {"spec_constraints": spec["constraints"], "pinned_candidates": len(grid), "outcomes": acc.outcomes}
    return acc.result()


def debug_diff_specs():
    W = [{"name": "w0"}]
    on = [{"task": "t0", "resource": "w0"}, {"task": "t1", "resource": "w0"}]
    mk = lambda cons, **kw: fam.base(5, [fam.fx("t0", 2), fam.vr("t1", 1, 2, **kw)], workers=W, requirements=on,  # noqa
                                     constraints=cons)
    return [
        mk([{"id": "c", "kind": "ScheduleNTasksInTimeIntervals", "tasks": ["t0", "t1"], "n": 1, "intervals": [[0, 2], [3, 5]],
             "mode": "exact"}]),
        mk([{"id": "c", "kind": "ResourceUnavailable", "resource": "w0", "intervals": [[0, 1], [3, 4]]}]),
        mk([{"id": "c", "kind": "WorkLoad", "resource": "w0", "map": [[0, 2, 1], [3, 5, 1]], "mode": "max"}]),
        mk([{"id": "c", "kind": "TasksContiguous", "tasks": ["t0", "t1"]}]),
        mk([{"id": "c", "kind": "OrderedTaskGroup", "tasks": ["t1", "t0"], "interval": [0, 4], "mode": "lax"}], optional=True),
        mk([{"id": "c", "kind": "ResourcePeriodicallyUnavailable", "resource": "w0", "intervals": [[1, 2]], "period": 3},
            {"id": "d", "kind": "TaskPrecedence", "before": "t0", "after": "t1", "mode": "lax"}]),
        mk([{"id": "c", "kind": "Or", "args": [{"kind": "TasksContiguous", "tasks": ["t0", "t1"]},
                                               {"kind": "TaskStartAt", "task": "t0", "value": 3}]}]),
    ]


def run_debug_sequence(case):
    """debug mode never changes the verdict, also for the requests that FOLLOW a solve on the same solver object
    (solve again, find another solution): the same sequence is run with debug on and off and the verdicts compared"""
    acc = common.Acc(PREFIXES)
    spec, cfg = case["spec"], case["solver"]
    seqs = {}
    for dbg in (False, True):
        ins.reset_case()
        verdicts = []
        try:
            with warnings.catch_warnings():
                warnings.simplefilter("ignore")
                b = bld.build(spec)
                solver = ps.SchedulingSolver(problem=b.problem, debug=dbg, max_time=30, **cfg)
                for op in case["ops"]:
                    nchk = len(ins.check_results())
                    sol = solver.solve() if op == "S" else solver.find_another_solution()
                    acc.executions += 1
                    new = ins.check_results()[nchk:]
                    if sol:
                        verdicts.append("sat")
                        rep, _P = rs.evaluate_observed(spec, obs.observe(b, sol, solver._model))
                        for cl, d in rep.failed():
                            if cl.startswith(("C01.", "C02.", "C03.", "C04.", "C09.")):
                                acc.violation("C19.debug_schedule_invalid", "admitted-invalid", {"clause": cl, "debug": dbg},
                                              {"clause_detail": d, "ops": case["ops"]})
                    else:
                        verdicts.append("unsat" if new and new[-1] == "unsat" else "unknown")
                        break
        except Exception as exc:  # pylint: disable=broad-except
            acc.violation("C19.exception", "exception", {"exc": type(exc).__name__, "debug": dbg},
                          {"msg": str(exc)[:300], "ops": case["ops"]})
            verdicts.append("exception")
        seqs[dbg] = verdicts
    acc.sigs.add(common.h([common.h(spec), cfg, case["ops"]]))
    if "unknown" in seqs[False] + seqs[True] or "exception" in seqs[False] + seqs[True]:
        if "unknown" in seqs[False] + seqs[True]:
            acc.inconclusive.append("unknown")
        return acc.result()
    same = seqs[False] == seqs[True]
    acc.count(acc.clauses, f"C19.verdict_sequence_same_as_non_debug:{'T' if same else 'F'}")
    if not same:
        acc.violation("C19.debug_changes_verdict", "differs", {"debug": "/".join(seqs[True]), "plain": "/".join(seqs[False]),
                                                               "sequence": True},
                      {"ops": case["ops"], "config": cfg})
    acc.sample = {"spec_objectives": spec.get("objectives"), "ops": case["ops"], "plain": seqs[False], "debug": seqs[True]}
    return acc.result()


def generate(tier, seed):
    cases = []
    for k in range(8 if tier == "quick" else 60):
        rng = random.Random(f"{seed}-c19-seq-{k}")
        spec = make_spec("none", [], rng.randint(0, 4), rng, feasible=True)
        if k % 4 != 3:
            spec["objectives"] = [{"kind": ("Makespan", "Flowtime", "StartLatest")[k % 3]}]
        for cfg in ({"optimizer": "incremental"}, {"optimizer": "optimize", "optimize_priority": "lex"}):
            if cfg["optimizer"] == "optimize" and not spec.get("objectives"):
                continue
            for ops in (["S", "S"], ["S", "A", "S"], ["S", "A", "A"]):
                cases.append({"cid": f"sequence-{k}-{cfg['optimizer']}-{''.join(ops)}", "family": "debug-sequence",
                              "kind": "debugseq", "spec": spec, "solver": cfg, "ops": ops})
    for i, spec in enumerate(debug_diff_specs()):
        cases.append({"cid": f"debugdiff-{i}", "family": "debug-differential", "kind": "debugdiff", "spec": spec,
                      "limit": 30 if tier == "quick" else 300, "rng": seed + i})
    reps = 4 if tier == "quick" else 20
    for pname, conflict in conflict_patterns():
        for k in range(reps):
            rng = random.Random(f"{seed}-c19-{pname}-{k}")
            n_irr = rng.choice([0, 1, 3, 5, 6])
            spec = make_spec(pname, conflict, min(n_irr, 10 - len(conflict)), rng)
            cases.append({"cid": f"infeasible-{pname}-{k}", "family": "infeasible", "kind": "diag", "spec": spec,
                          "pattern": pname, "configs": [{}]})
    # feasible problems: verdict and validity under debug
    for k in range(30 if tier == "quick" else 200):
        rng = random.Random(f"{seed}-c19-feas-{k}")
        spec = make_spec("none", [], rng.randint(1, 6), rng, feasible=True)
        cfgs = [{}]
        if k % 3 == 0:
            spec["objectives"] = [{"kind": "Makespan"}]
            cfgs = [{"optimizer": "incremental"}, {"optimizer": "optimize"}]
        cases.append({"cid": f"feasible-{k}", "family": "feasible", "kind": "diag", "spec": spec, "pattern": "feasible",
                      "configs": cfgs})
    # infeasible with an objective: the optimisation path prints no diagnosis (counted, not judged)
    for pname, conflict in conflict_patterns()[:4]:
        rng = random.Random(f"{seed}-c19-obj-{pname}")
        spec = make_spec(pname, conflict, 2, rng)
        spec["objectives"] = [{"kind": "Makespan"}]
        cases.append({"cid": f"infeasible-obj-{pname}", "family": "infeasible-objective", "kind": "diag", "spec": spec,
                      "pattern": pname, "configs": [{"optimizer": "incremental"}, {"optimizer": "optimize"}]})
    return cases


def run_case(case):
    if case["kind"] == "debugdiff":
        return run_debug_diff(case)
    if case["kind"] == "debugseq":
        return run_debug_sequence(case)
    return run_diag(case)


def floors(tier):
    return {"distinct_nontrivial": 60, "C19.listed_set_conflicts:T": 30, "C19.verdict_same_as_non_debug:T": 60}


def shards(tier):
    return 48
