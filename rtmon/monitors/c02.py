"""C02 — see DESIGN.md section 7.  Catalogue walk (rtmon/families.py) with the
whole candidate grid of every micro-Spec pin-probed, plus random mixtures."""
import random

from . import common
from .. import families, gen

PROPERTY = "C02"
PREFIXES = ("C02.",)
RULE = ("catalogue cells (element kind x mode x boundary parameters x task-type mix) from rtmon/families.py; for each "
        "cell every candidate of the valid-domain grid (all starts/durations/optional flags/selections/dynamic spans) "
        "is pinned through the public API and solved by the real solver: a refused candidate that breaks a C02 clause "
        "and a returned schedule on which a C02 clause evaluates T/F are the observations. Random mixtures add free "
        "and configuration-varied solves. distinct = distinct (spec, candidate|plan, config).")
ASSUMPTIONS = ["refsem clauses for C02 follow docs/*.md and the property statement; ambiguity band listed in DESIGN.md 3.1",
               "z3 answers definitively on micro instances (unknown = inconclusive)"]
EXHAUSTIVE = {"quick": False, "thorough": False}

PROFILE = {"selection": 0.5, "cumulative": 0.4, "dynamic": 0.25, "delay": 0.25, "work": 0.4, "task_constraints": 1, "resource_constraints": 0, "buffers": 0.0}


def generate(tier, seed):
    cases = []
    cells = families.c02_cells(tier)
    for name, spec in cells:
        cases.append({"cid": f"cell-{name}", "family": "cell:" + name.split(".")[0], "kind": "grid", "spec": spec,
                      "wide": False, "limit": 400 if tier == "quick" else 3000, "rng": seed,
                      "skip_foreign_invalid": True, "sel_wide": True})
    nmix = 50 if tier == "quick" else 800
    for i in range(nmix):
        r = random.Random(f"{seed}-c02-mix-{i}")
        spec = gen.random_spec(r, n_tasks=r.randint(2, 3 if tier == "quick" else 4), profile=PROFILE)
        cases.append({"cid": f"mix-grid-{i}", "family": "mixture", "kind": "grid", "spec": spec, "wide": False,
                      "limit": 40 if tier == "quick" else 150, "rng": seed * 1000 + i, "skip_foreign_invalid": True,
                      "sel_wide": True})
        for j, cfg in enumerate(({}, {"random_values": True})):
            cases.append({"cid": f"mix-free-{i}-{j}", "family": "mixture-free", "kind": "solve", "spec": spec,
                          "plan": {"solver": cfg, "py_seed": seed + i}})
    cases.extend(extra_cases(tier, seed))
    if tier != "quick":
        # L7: the repository's own tests under the universal monitors
        cases.append({"cid": "suite-replay", "family": "suite", "kind": "suite", "jobs": 8})
    return cases


def extra_cases(tier, seed):
    return []


def run_case(case):
    return common.run_generic(case, PREFIXES)


def floors(tier):
    return {"distinct_nontrivial": 1000}


def shards(tier):
    return 64
