"""C08 — reported indicator values equal their definition on the reported schedule."""
import copy
import random

from . import common
from .. import families as fam
from .. import gen

PROPERTY = "C08"
PREFIXES = ("C08.",)
RULE = ("catalogue: each indicator kind (utilisation, tasks assigned, cost constant/linear/polynomial incl. cumulative, "
        "idle, tardiness, earliness, tardy count, max lateness, buffer extrema, user expressions, objective-created "
        "flow time / weighted completion / weighted start / min and max start) on 1-3 tasks x horizons {3,7,10,12,200,absent} "
        "x cost coefficients incl. 0/1/odd x optional and selected assignments; every valid placement of the grid is pinned "
        "and the reported value compared with the definition recomputed by refsem on the reported schedule (|diff| < 1); "
        "each indicator is also minimised and maximised with both optimisers; IndicatorTarget/IndicatorBounds must hold "
        "on the reported value. distinct = (spec, candidate|plan).")
ASSUMPTIONS = ["to within integer rounding = strictly less than 1 away from the exact definition",
               "tardiness weighted by priority or not: both accepted (docs disagree); polynomial cost: trapezoid or "
               "exact integral accepted; cumulative-worker utilisation/cost: task-level to unit-level range accepted"]
EXHAUSTIVE = {"quick": False, "thorough": False}

W = [{"name": "w0"}, {"name": "w1"}]


def cells(tier):
    out = []

    def on(tasks, res="w0"):
        return [{"task": t["name"], "resource": res} for t in tasks]

    # utilisation over horizons that do and do not divide 100
    for H in (3, 7, 10, 12, 200):
        for tag, tasks in (("f", [fam.fx("t0", 2)]), ("fv", [fam.fx("t0", 1), fam.vr("t1", 1, 2)]),
                           ("fo", [fam.fx("t0", 2), fam.fx("t1", 1, optional=True)])):
            out.append((f"Utilization.{tag}.H{H}", fam.base(H, copy.deepcopy(tasks), workers=W[:1],
                                                            requirements=on(tasks),
                                                            indicators=[{"id": "i", "kind": "Utilization",
                                                                         "resource": "w0"}]), min(H, 6)))
    out.append(("Utilization.delayed_opt", fam.base(7, [fam.fx("t0", 3, optional=True), fam.fx("t1", 1)], workers=[
        {"name": "w0", "cost": {"kind": "const", "value": 2}}], requirements=[
        {"task": "t0", "resource": "w0", "delay_in": 1}, {"task": "t1", "resource": "w0"}],
        indicators=[{"id": "i", "kind": "Utilization", "resource": "w0"},
                    {"id": "c", "kind": "ResourceCost", "resources": ["w0"]}]), 7))
    out.append(("Utilization.cumulative", fam.base(4, [fam.fx("t0", 2), fam.fx("t1", 2)],
                                                   cumulative=[{"name": "cu", "size": 2}],
                                                   requirements=on([{"name": "t0"}, {"name": "t1"}], "cu"),
                                                   indicators=[{"id": "i", "kind": "Utilization", "resource": "cu"}]), 4))
    # number of tasks assigned, through a selection and with optional tasks
    out.append(("NbTasksAssigned.sel", fam.base(4, [fam.fx("t0", 1), fam.fx("t1", 2), fam.fx("t2", 1, optional=True)],
                                                workers=W, selections=[{"id": "s0", "workers": ["w0", "w1"], "n": 1,
                                                                        "kind": "exact"}],
                                                requirements=[{"task": "t0", "resource": "s0"},
                                                              {"task": "t1", "resource": "w0"},
                                                              {"task": "t2", "resource": "w0"}],
                                                indicators=[{"id": "i", "kind": "NbTasksAssigned", "resource": "w0"},
                                                            {"id": "j", "kind": "NbTasksAssigned", "resource": "w1"}]), 4))
    out.append(("NbTasksAssigned.zero_at_0", fam.base(3, [fam.zr("t0"), fam.fx("t1", 1)], workers=W[:1],
                                                      requirements=on([{"name": "t0"}, {"name": "t1"}]),
                                                      indicators=[{"id": "i", "kind": "NbTasksAssigned",
                                                                   "resource": "w0"}]), 3))
    # cost functions
    costs = [("c0", {"kind": "const", "value": 0}), ("c1", {"kind": "const", "value": 1}),
             ("c3", {"kind": "const", "value": 3}), ("l10", {"kind": "linear", "slope": 1, "intercept": 0}),
             ("l21", {"kind": "linear", "slope": 2, "intercept": 1}), ("l13", {"kind": "linear", "slope": 1, "intercept": 3}),
             ("l30", {"kind": "linear", "slope": 3, "intercept": 0}),
             ("p100", {"kind": "poly", "coefficients": [1, 0, 0]}), ("p123", {"kind": "poly", "coefficients": [1, 2, 3]})]
    for ctag, cost in costs:
        for tag, tasks in (("f", [fam.fx("t0", 3)]), ("v", [fam.vr("t0", 1, 3)]),
                           ("ff", [fam.fx("t0", 1), fam.fx("t1", 2)])):
            ws = [{"name": "w0", "cost": cost}]
            out.append((f"ResourceCost.{ctag}.{tag}", fam.base(6, copy.deepcopy(tasks), workers=ws, requirements=on(tasks),
                                                               indicators=[{"id": "i", "kind": "ResourceCost",
                                                                            "resources": ["w0"]}]), 6))
    out.append(("ResourceCost.two", fam.base(5, [fam.fx("t0", 2), fam.vr("t1", 1, 2)], workers=[
        {"name": "w0", "cost": {"kind": "const", "value": 2}}, {"name": "w1", "cost": {"kind": "linear", "slope": 1,
                                                                                       "intercept": 1}}],
        requirements=[{"task": "t0", "resource": "w0"}, {"task": "t1", "resource": "w1"},
                      {"task": "t1", "resource": "w0"}],
        indicators=[{"id": "i", "kind": "ResourceCost", "resources": ["w0", "w1"]}]), 5))
    out.append(("ResourceCost.sel", fam.base(4, [fam.fx("t0", 2)], workers=[
        {"name": "w0", "cost": {"kind": "const", "value": 2}}, {"name": "w1", "cost": {"kind": "const", "value": 5}}],
        selections=[{"id": "s0", "workers": ["w0", "w1"], "n": 1, "kind": "min"}],
        requirements=[{"task": "t0", "resource": "s0"}],
        indicators=[{"id": "i", "kind": "ResourceCost", "resources": ["w0", "w1"]}]), 4))
    out.append(("ResourceCost.cumulative", fam.base(4, [fam.fx("t0", 2), fam.fx("t1", 1)],
                                                    cumulative=[{"name": "cu", "size": 2,
                                                                 "cost": {"kind": "const", "value": 5}}],
                                                    requirements=on([{"name": "t0"}, {"name": "t1"}], "cu"),
                                                    indicators=[{"id": "i", "kind": "ResourceCost",
                                                                 "resources": ["cu"]}]), 4))
    # idle time
    out.append(("ResourceIdle.ff", fam.base(6, [fam.fx("t0", 1), fam.fx("t1", 2)], workers=W[:1],
                                            requirements=on([{"name": "t0"}, {"name": "t1"}]),
                                            indicators=[{"id": "i", "kind": "ResourceIdle", "resource": "w0"}]), 6))
    out.append(("ResourceIdle.fff", fam.base(5, [fam.fx("t0", 1), fam.fx("t1", 1), fam.fx("t2", 1)], workers=W[:1],
                                             requirements=on([{"name": "t0"}, {"name": "t1"}, {"name": "t2"}]),
                                             indicators=[{"id": "i", "kind": "ResourceIdle", "resource": "w0"}]), 5))
    out.append(("ResourceIdle.fo", fam.base(5, [fam.fx("t0", 1), fam.fx("t1", 1, optional=True), fam.fx("t2", 1)],
                                            workers=W[:1],
                                            requirements=on([{"name": "t0"}, {"name": "t1"}, {"name": "t2"}]),
                                            indicators=[{"id": "i", "kind": "ResourceIdle", "resource": "w0"}]), 5))
    # a zero-length busy interval (milestone) among the worker's tasks, in particular first and at the origin, where
    # the "only scheduled intervals" guards of the encoding sit on their boundary
    out.append(("ResourceIdle.zf", fam.base(4, [fam.zr("t0"), fam.fx("t1", 1)], workers=W[:1],
                                            requirements=on([{"name": "t0"}, {"name": "t1"}]),
                                            indicators=[{"id": "i", "kind": "ResourceIdle", "resource": "w0"}]), 4))
    out.append(("ResourceIdle.zfv", fam.base(4, [fam.zr("t0"), fam.vr("t1", 1, 2)], workers=W[:1],
                                             requirements=on([{"name": "t0"}, {"name": "t1"}]),
                                             indicators=[{"id": "i", "kind": "ResourceIdle", "resource": "w0"}]), 4))
    # due-date indicators
    for kind in ("Tardiness", "Earliness", "NbTardy", "MaxLateness"):
        for lst in (None, ["t0", "t1"]):
            tasks = [fam.fx("t0", 2, due_date=3, due_date_is_deadline=False, priority=2),
                     fam.vr("t1", 1, 2, due_date=2, due_date_is_deadline=False),
                     fam.fx("t2", 1, due_date=4, due_date_is_deadline=False, optional=True, priority=3)]
            ind = {"id": "i", "kind": kind}
            if lst:
                ind["tasks"] = lst
            out.append((f"{kind}.{'all' if lst is None else 'list'}", fam.base(5, tasks, indicators=[ind]), 5))
    # several resources with NON-constant costs (each trapezoid area may be a half-integer) and a worker with three busy
    # intervals on a horizon that does not divide 100 (roundings must not add up per term)
    lin = {"kind": "linear", "slope": 1, "intercept": 2}
    out.append(("ResourceCost.four_linear", fam.base(3, [fam.fx("t0", 1), fam.fx("t1", 1)], workers=[
        {"name": f"w{i}", "cost": dict(lin)} for i in range(4)], requirements=[
        {"task": "t0", "resource": "w0"}, {"task": "t0", "resource": "w1"}, {"task": "t1", "resource": "w2"},
        {"task": "t1", "resource": "w3"}],
        indicators=[{"id": "i", "kind": "ResourceCost", "resources": ["w0", "w1", "w2", "w3"]}]), 3))
    out.append(("Utilization.three_tasks.H7", fam.base(7, [fam.fx("t0", 1), fam.fx("t1", 1), fam.fx("t2", 1)], workers=W[:1],
                                                     requirements=on([{"name": "t0"}, {"name": "t1"}, {"name": "t2"}]),
                                                     indicators=[{"id": "i", "kind": "Utilization", "resource": "w0"}]), 7))
    out.append(("Utilization.four_tasks.H12", fam.base(12, [fam.fx(f"t{i}", 1) for i in range(4)], workers=W[:1],
                                                      requirements=on([{"name": f"t{i}"} for i in range(4)]),
                                                      indicators=[{"id": "i", "kind": "Utilization", "resource": "w0"}]), 6))
    # a due date of ZERO (total tardiness = total completion time) next to ordinary ones
    for kind in ("Tardiness", "NbTardy", "MaxLateness", "Earliness"):
        for lst in (None, ["t0", "t1"]):
            tasks = [fam.fx("t0", 2, due_date=0, due_date_is_deadline=False), fam.zr("t1", due_date=0, due_date_is_deadline=False),
                     fam.fx("t2", 1, due_date=2, due_date_is_deadline=False)]
            ind = {"id": "i", "kind": kind}
            if lst:
                ind["tasks"] = lst
            out.append((f"{kind}.due0.{'all' if lst is None else 'list'}", fam.base(4, tasks, indicators=[ind]), 4))
    # two whole-problem indicators whose reported names collide in the solution
    out.append(("Tardiness+NbTardy.names", fam.base(5, [fam.fx("t0", 2, due_date=1, due_date_is_deadline=False),
                                                       fam.fx("t1", 1, due_date=1, due_date_is_deadline=False)],
                                                    indicators=[{"id": "i", "kind": "Tardiness"},
                                                                {"id": "j", "kind": "NbTardy"}]), 5))
    # buffer extrema
    for conc in (False, True):
        out.append((f"BufferLevels.{conc}", fam.base(5, [fam.fx("t0", 2), fam.fx("t1", 1)], buffers=[
            {"name": "bf", "concurrent": conc, "initial": 2}], constraints=[
            {"id": "u0", "kind": "TaskUnloadBuffer", "task": "t0", "buffer": "bf", "quantity": 2},
            {"id": "l1", "kind": "TaskLoadBuffer", "task": "t1", "buffer": "bf", "quantity": 3}],
            indicators=[{"id": "i", "kind": "MaxBufferLevel", "buffer": "bf"},
                        {"id": "j", "kind": "MinBufferLevel", "buffer": "bf"}]), 5))
    # user expressions
    out.append(("FromExpr", fam.base(5, [fam.fx("t0", 2), fam.vr("t1", 1, 2)], indicators=[
        {"id": "i", "kind": "FromExpr", "name": "gap", "expr": ["-", ["start", "t1"], ["end", "t0"]]},
        {"id": "j", "kind": "FromExpr", "name": "sq", "expr": ["*", ["duration", "t1"], ["end", "t1"]]},
        {"id": "k", "kind": "FromExpr", "name": "ite", "expr": ["ite", [">", ["start", "t0"], 1], ["end", "t1"], 7]}]), 5))
    # objective-created indicators
    for okind in ("Flowtime", "Priorities", "StartEarliest", "StartLatest", "GreatestStart"):
        tasks = [fam.fx("t0", 2, priority=3), fam.vr("t1", 1, 2, priority=0), fam.fx("t2", 1, optional=True, priority=2)]
        out.append((f"obj.{okind}", fam.base(5, tasks, objectives=[{"kind": okind}]), 5))
    out.append(("obj.FlowtimeSingleResource", fam.base(7, [fam.fx("t0", 2), fam.vr("t1", 1, 2), fam.fx("t2", 1)],
                                                       workers=W[:1], requirements=on([{"name": "t0"}, {"name": "t1"},
                                                                                       {"name": "t2"}]),
                                                       constraints=[{"id": "a", "kind": "TaskStartAfter", "task": "t2",
                                                                     "value": 3, "mode": "lax"}],
                                                       objectives=[{"kind": "FlowtimeSingleResource", "resource": "w0"}]), 7))
    # indicator constraints
    out.append(("IndicatorTarget.util", fam.base(10, [fam.vr("t0", 1, 6)], workers=W[:1], requirements=on([{"name": "t0"}]),
                                                 indicators=[{"id": "i", "kind": "Utilization", "resource": "w0"}],
                                                 constraints=[{"id": "c", "kind": "IndicatorTarget", "indicator": "i",
                                                               "value": 40}]), 6))
    out.append(("IndicatorBounds.cost", fam.base(6, [fam.vr("t0", 1, 4)], workers=[
        {"name": "w0", "cost": {"kind": "linear", "slope": 1, "intercept": 1}}], requirements=on([{"name": "t0"}]),
        indicators=[{"id": "i", "kind": "ResourceCost", "resources": ["w0"]}],
        constraints=[{"id": "c", "kind": "IndicatorBounds", "indicator": "i", "lower": 4, "upper": 9}]), 6))
    out.append(("IndicatorBounds.expr", fam.base(6, [fam.fx("t0", 2), fam.fx("t1", 1)], indicators=[
        {"id": "i", "kind": "FromExpr", "name": "gap", "expr": ["-", ["start", "t1"], ["end", "t0"]]}],
        constraints=[{"id": "c", "kind": "IndicatorBounds", "indicator": "i", "lower": 1},
                     {"id": "d", "kind": "IndicatorTarget", "indicator": "i", "value": 2, "optional": True}]), 6))
    # bounds and targets equal to ZERO (and a negative one), on indicators that can go to either side of it
    gap = {"id": "i", "kind": "FromExpr", "name": "gap", "expr": ["-", ["start", "t1"], ["end", "t0"]]}
    for nm, cons in (("upper0", {"kind": "IndicatorBounds", "upper": 0}), ("lower0", {"kind": "IndicatorBounds", "lower": 0}),
                     ("both0", {"kind": "IndicatorBounds", "lower": 0, "upper": 0}),
                     ("lower_neg", {"kind": "IndicatorBounds", "lower": -1, "upper": 1}),
                     ("target0", {"kind": "IndicatorTarget", "value": 0})):
        out.append((f"IndicatorZero.expr.{nm}", fam.base(6, [fam.fx("t0", 2), fam.fx("t1", 1)], indicators=[dict(gap)],
                                                         constraints=[dict({"id": "c", "indicator": "i"}, **cons)]), 6))
    for nm, cons in (("upper0", {"kind": "IndicatorBounds", "upper": 0}), ("target0", {"kind": "IndicatorTarget", "value": 0})):
        out.append((f"IndicatorZero.tardiness.{nm}", fam.base(
            6, [fam.fx("t0", 2, due_date=3, due_date_is_deadline=False), fam.fx("t1", 1, due_date=2, due_date_is_deadline=False)],
            indicators=[{"id": "i", "kind": "Tardiness"}], constraints=[dict({"id": "c", "indicator": "i"}, **cons)]), 6))
    return out


def generate(tier, seed):
    cases = []
    for name, spec, hi in cells(tier):
        cases.append({"cid": f"cell-{name}", "family": "cell:" + name.split(".")[0], "kind": "grid", "spec": spec,
                      "wide": False, "hi": hi, "only": ["valid", "band", "invalid"],
                      "limit": 60 if tier == "quick" else 1500, "rng": seed, "skip_foreign_invalid": True})
        if spec.get("objectives"):
            for optimizer in ("incremental", "optimize"):
                cases.append({"cid": f"opt-{name}-{optimizer}", "family": "objective", "kind": "solve", "spec": spec,
                              "plan": {"solver": {"optimizer": optimizer, "max_time": 20}}})
            # the value delivered with an interrupted optimisation still has to match the schedule
            for k in (1, 2):
                cases.append({"cid": f"opt-{name}-maxiter{k}", "family": "objective-interrupted", "kind": "solve",
                              "spec": spec, "plan": {"solver": {"optimizer": "incremental", "max_iter": k, "max_time": 20}}})
            continue
        # steer: minimise and maximise each indicator itself
        for ind in spec["indicators"]:
            for okind in ("MinimizeIndicator", "MaximizeIndicator"):
                for optimizer in ("incremental", "optimize"):
                    if tier == "quick" and optimizer == "optimize" and okind == "MinimizeIndicator":
                        continue
                    if spec["problem"]["horizon"] > 20:
                        continue
                    s2 = copy.deepcopy(spec)
                    s2["objectives"] = [{"kind": okind, "indicator": ind["id"], "weight": 1}]
                    cases.append({"cid": f"steer-{name}-{ind['id']}-{okind}-{optimizer}", "family": "steer",
                                  "kind": "solve", "spec": s2,
                                  "plan": {"solver": {"optimizer": optimizer, "max_time": 20}}})
        # horizon absent
        if name.startswith(("Utilization", "ResourceCost.l21", "ResourceIdle")):
            s3 = copy.deepcopy(spec)
            s3["problem"].pop("horizon")
            cases.append({"cid": f"nohorizon-{name}", "family": "nohorizon", "kind": "solve", "spec": s3,
                          "plan": {"solver": {"max_time": 20}}, "user_horizon": False})
    nmix = 30 if tier == "quick" else 500
    for i in range(nmix):
        r = random.Random(f"{seed}-c08-mix-{i}")
        spec = gen.random_spec(r, n_tasks=r.randint(2, 3), profile={"buffers": 0.4, "cumulative": 0.0})
        inds = []
        ws = [w["name"] for w in spec["workers"] if any(q["resource"] == w["name"] for q in spec["requirements"])]
        for w in spec["workers"]:
            if r.random() < 0.5:
                w["cost"] = r.choice([{"kind": "const", "value": r.randint(0, 4)},
                                      {"kind": "linear", "slope": r.randint(0, 3), "intercept": r.randint(0, 3)}])
        if ws:
            inds.append({"id": "u", "kind": "Utilization", "resource": r.choice(ws)})
            inds.append({"id": "n", "kind": "NbTasksAssigned", "resource": r.choice(ws)})
            inds.append({"id": "c", "kind": "ResourceCost", "resources": ws})
        if spec["buffers"]:
            inds.append({"id": "b", "kind": "MaxBufferLevel", "buffer": "bf"})
        spec["indicators"] = inds
        cases.append({"cid": f"mix-grid-{i}", "family": "mixture", "kind": "grid", "spec": spec, "wide": False,
                      "only": ["valid", "band"], "limit": 20 if tier == "quick" else 150, "rng": seed * 1000 + i})
    return cases


def run_case(case):
    return common.run_generic(case, PREFIXES)


def floors(tier):
    return {"distinct_nontrivial": 800, "C08.Utilization:T@sat": 100, "C08.ResourceCost:T@sat": 200,
            "C08.Tardiness:T@sat": 20, "C08.ResourceIdle:T@sat": 20}


def shards(tier):
    return 64
