"""Seeded generators of well-formed Specs (plain random.Random programs: a case
is reproduced from (seed, family, index) alone)."""
import random


def mk_task(rng, name, H, types=("Fixed", "Zero", "Variable"), p_optional=0.3, p_dates=0.3,
            p_work=0.0, max_d=3):
    ty = rng.choice(types)
    t = {"name": name, "type": ty}
    if ty == "Fixed":
        t["duration"] = rng.randint(1, max_d)
    elif ty == "Variable":
        r = rng.random()
        if r < 0.5:
            t["min_duration"] = rng.randint(0, 2)
            t["max_duration"] = t["min_duration"] + rng.randint(1, 2)
        elif r < 0.75:
            t["allowed_durations"] = sorted(rng.sample([1, 2, 3, 4], 2))
            t["max_duration"] = max(t["allowed_durations"])
            if rng.random() < 0.4:
                # a lower bound above one of the listed durations: both restrictions hold together
                t["min_duration"] = t["max_duration"]
        else:
            t["min_duration"] = rng.randint(1, 2)
            t["max_duration"] = t["min_duration"] + 2
    if rng.random() < p_optional:
        t["optional"] = True
    if rng.random() < p_dates:
        t["release_date"] = rng.randint(0, max(0, H - 3))
    if rng.random() < p_dates:
        t["due_date"] = rng.randint(2, H)
        t["due_date_is_deadline"] = rng.random() < 0.7
    if rng.random() < p_work and ty == "Variable":
        t["work_amount"] = rng.randint(1, 6)
    if rng.random() < 0.3:
        t["priority"] = rng.randint(0, 4)
    return t


def intervals(rng, H, n=None, allow_touch=True):
    n = n or rng.choice([1, 1, 2])
    out = []
    for _ in range(n):
        lo = rng.randint(0, H - 1)
        hi = rng.randint(lo + 1, min(H, lo + 3))
        if [lo, hi] not in out:      # well-formedness assumption: no interval listed twice
            out.append([lo, hi])
    return out


TASK_CONSTRAINT_KINDS = ["TaskStartAt", "TaskStartAfter", "TaskEndAt", "TaskEndBefore", "TaskPrecedence",
                         "TasksStartSynced", "TasksEndSynced", "TasksDontOverlap", "TasksContiguous",
                         "UnorderedTaskGroup", "OrderedTaskGroup", "ScheduleNTasksInTimeIntervals"]


def mk_task_constraint(rng, kind, names, H, cid):
    c = {"id": cid, "kind": kind}
    if kind in ("TaskStartAt", "TaskEndAt"):
        c.update(task=rng.choice(names), value=rng.randint(0, H))
    elif kind in ("TaskStartAfter", "TaskEndBefore"):
        c.update(task=rng.choice(names), value=rng.randint(0, H), mode=rng.choice(["lax", "strict"]))
    elif kind == "TaskPrecedence":
        a, b = rng.sample(names, 2)
        c.update(before=a, after=b, offset=rng.choice([0, 0, 1, 2]), mode=rng.choice(["lax", "strict", "tight"]))
    elif kind in ("TasksStartSynced", "TasksEndSynced", "TasksDontOverlap"):
        a, b = rng.sample(names, 2)
        c.update(t1=a, t2=b)
    elif kind == "TasksContiguous":
        c.update(tasks=rng.sample(names, rng.randint(2, min(3, len(names)))))
    elif kind in ("UnorderedTaskGroup", "OrderedTaskGroup"):
        c.update(tasks=rng.sample(names, rng.randint(2, min(3, len(names)))))
        r = rng.random()
        if r < 0.5:
            lo = rng.randint(0, H - 2)
            c["interval"] = [lo, rng.randint(lo + 1, H)]
        else:
            c["length"] = rng.randint(1, H)
        if kind == "OrderedTaskGroup":
            c["mode"] = rng.choice(["lax", "strict", "tight"])
    elif kind == "ScheduleNTasksInTimeIntervals":
        ts = rng.sample(names, rng.randint(1, len(names)))
        c.update(tasks=ts, n=rng.randint(0, len(ts)), intervals=intervals(rng, H),
                 mode=rng.choice(["exact", "min", "max"]))
    return c


RESOURCE_CONSTRAINT_KINDS = ["ResourceUnavailable", "ResourcePeriodicallyUnavailable", "WorkLoad",
                             "ResourceTasksDistance", "ResourceNonDelay", "ResourceInterrupted",
                             "ResourcePeriodicallyInterrupted"]


def mk_resource_constraint(rng, kind, resource, H, cid, n_assigned=2):
    c = {"id": cid, "kind": kind, "resource": resource}
    if kind in ("ResourceUnavailable", "ResourceInterrupted"):
        c["intervals"] = intervals(rng, H)
    elif kind in ("ResourcePeriodicallyUnavailable", "ResourcePeriodicallyInterrupted"):
        per = rng.choice([3, 4, 5])
        lo = rng.randint(0, per - 2)
        c.update(period=per, intervals=[[lo, rng.randint(lo + 1, min(per, lo + 2))]])
        if rng.random() < 0.4:
            c["offset"] = rng.randint(1, 2)
        if rng.random() < 0.3:
            c["start"] = rng.randint(1, 3)
        if rng.random() < 0.3:
            c["end"] = rng.randint(H - 3, H)
    elif kind == "WorkLoad":
        ivs = intervals(rng, H)
        c["map"] = [[lo, hi, rng.randint(0, hi - lo)] for lo, hi in ivs]
        # dictionary keys: no duplicate interval
        seen, mp = set(), []
        for lo, hi, b in c["map"]:
            if (lo, hi) not in seen:
                seen.add((lo, hi))
                mp.append([lo, hi, b])
        c["map"] = mp
        c["mode"] = rng.choice(["exact", "max", "min"])
    elif kind == "ResourceTasksDistance":
        c.update(distance=rng.randint(0, 3), mode=rng.choice(["exact", "min", "max"]))
        if rng.random() < 0.4:
            c["intervals"] = intervals(rng, H)
    return c


def random_spec(rng, H=None, n_tasks=None, profile=None):
    """random composition.  profile: dict of switches / probabilities."""
    pf = {"optional": 0.3, "dates": 0.3, "workers": True, "cumulative": 0.25, "selection": 0.3,
          "dynamic": 0.15, "delay": 0.15, "work": 0.15, "task_constraints": 2, "resource_constraints": 1,
          "buffers": 0.3, "indicators": 0.0, "types": ("Fixed", "Zero", "Variable")}
    pf.update(profile or {})
    H = H or rng.randint(5, 8)
    n = n_tasks or rng.randint(2, 3)
    names = [f"t{i}" for i in range(n)]
    spec = {"problem": {"name": "P", "horizon": H}, "tasks": [], "workers": [], "cumulative": [],
            "selections": [], "requirements": [], "buffers": [], "constraints": [], "indicators": [],
            "objectives": []}
    for nm in names:
        spec["tasks"].append(mk_task(rng, nm, H, pf["types"], pf["optional"], pf["dates"], pf["work"]))
    cid = 0
    assigned = {}    # resource -> number of tasks
    if pf["workers"]:
        nw = rng.randint(1, 3)
        for i in range(nw):
            w = {"name": f"w{i}"}
            if rng.random() < 0.4:
                w["productivity"] = rng.randint(0, 3)
            spec["workers"].append(w)
        if rng.random() < pf["cumulative"]:
            spec["cumulative"].append({"name": "cu", "size": rng.choice([2, 2, 3])})
        sel_workers = set()
        if nw >= 2 and rng.random() < pf["selection"]:
            k = rng.randint(2, nw)
            ws = [f"w{i}" for i in rng.sample(range(nw), k)]
            spec["selections"].append({"id": "s0", "workers": ws, "n": rng.randint(1, k),
                                       "kind": rng.choice(["exact", "min", "max"])})
            sel_workers = set(ws)
        sel_used = False
        for t in spec["tasks"]:
            pool = [w["name"] for w in spec["workers"]] + [c["name"] for c in spec["cumulative"]]
            if spec["selections"] and not sel_used:
                pool.append("s0")
            k = rng.choice([0, 1, 1, 2])
            direct = set()
            for res in rng.sample(pool, min(k, len(pool))):
                if res == "s0":
                    if direct & sel_workers:
                        continue
                    sel_used = True
                elif res in sel_workers and any(r["task"] == t["name"] and r["resource"] == "s0"
                                                for r in spec["requirements"]):
                    continue
                req = {"task": t["name"], "resource": res}
                if res.startswith("w"):
                    direct.add(res)
                    r = rng.random()
                    if r < pf["dynamic"]:
                        req["dynamic"] = True
                    elif r < pf["dynamic"] + pf["delay"] and t["type"] == "Fixed" and t["duration"] >= 2:
                        if rng.random() < 0.5:
                            req["delay_in"] = 1
                        else:
                            req["early_out"] = 1
                spec["requirements"].append(req)
                if res == "s0":
                    for w in sel_workers:
                        assigned[w] = assigned.get(w, 0) + 1
                else:
                    assigned[res] = assigned.get(res, 0) + 1
    for _ in range(rng.randint(0, pf["task_constraints"])):
        kind = rng.choice(pf.get("task_kinds") or TASK_CONSTRAINT_KINDS)
        if kind in ("TaskPrecedence", "TasksStartSynced", "TasksEndSynced", "TasksDontOverlap",
                    "TasksContiguous", "UnorderedTaskGroup", "OrderedTaskGroup") and n < 2:
            continue
        spec["constraints"].append(mk_task_constraint(rng, kind, names, H, f"c{cid}"))
        cid += 1
    res_pool = [r for r, k in assigned.items() if k >= 1 and not r.startswith("s")]
    for _ in range(rng.randint(0, pf["resource_constraints"])):
        if not res_pool:
            break
        res = rng.choice(res_pool)
        kinds = list(pf.get("resource_kinds") or RESOURCE_CONSTRAINT_KINDS)
        if res == "cu":
            kinds = [k for k in kinds if k in ("ResourceUnavailable", "WorkLoad", "ResourceInterrupted")]
        if assigned[res] < 2:
            kinds = [k for k in kinds if k not in ("ResourceTasksDistance", "ResourceNonDelay")]
        if not kinds:
            continue
        spec["constraints"].append(mk_resource_constraint(rng, rng.choice(kinds), res, H, f"c{cid}"))
        cid += 1
    if rng.random() < pf["buffers"]:
        conc = rng.random() < 0.4
        b = {"name": "bf", "concurrent": conc, "initial": rng.randint(0, 4)}
        if rng.random() < 0.5:
            b["lower"] = 0
        if rng.random() < 0.3:
            b["upper"] = b["initial"] + rng.randint(0, 3)
        if rng.random() < 0.3:
            b["final"] = rng.randint(0, 5)
        spec["buffers"].append(b)
        used = set()
        for t in rng.sample(names, rng.randint(1, n)):
            kind = rng.choice(["TaskLoadBuffer", "TaskUnloadBuffer"])
            if (t, kind) in used:
                continue
            used.add((t, kind))
            spec["constraints"].append({"id": f"c{cid}", "kind": kind, "task": t, "buffer": "bf",
                                        "quantity": rng.randint(1, 3)})
            cid += 1
    return spec


def rename(spec, mapping):
    """consistent renaming of tasks / workers / cumulative / buffers: every string
    VALUE equal to an old name is replaced (dictionary keys are field names and
    stay); position 0 of an expression list is an operator and stays."""
    def rec(x, in_expr_head=False):
        if isinstance(x, str):
            return mapping.get(x, x)
        if isinstance(x, list):
            if x and isinstance(x[0], str) and x[0] in _OPS:
                return [x[0]] + [rec(y) for y in x[1:]]
            return [rec(y) for y in x]
        if isinstance(x, dict):
            return {k: (v if k in ("kind", "type", "mode", "id", "pin") else rec(v)) for k, v in x.items()}
        return x
    return rec(spec)


_OPS = {"start", "end", "duration", "sched", "horizon", "ind", "busy_start", "busy_end", "sel", "applied", "level",
        "+", "-", "*", "<", "<=", ">", ">=", "==", "!=", "and", "or", "not", "ite"}
