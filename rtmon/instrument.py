"""Source-free instrumentation of the real library (nothing in /repo changes).

boundary B : class-level wrappers on z3.Solver / z3.Optimize methods
boundary A : wrappers on SchedulingSolver public methods
boundary C : post-condition wrapper on SchedulingSolver.build_solution
print      : processscheduler.solver.print replaced by a recorder
time       : processscheduler.solver.time replaced by a (switchable) virtual clock
faults     : k-th check() of the traced solvers may be forced to `unknown`

Every wrapper counts its own evaluations (COUNTERS) so that a check can tell
"monitor never reached" (inconclusive) from "held".
"""
import os
import sys
import time as _real_time

os.environ.setdefault("RTMON_INSTRUMENT", "1")

import z3  # noqa: E402

COUNTERS = {}
TRACE = []          # boundary-B events of the current case
HISTORY = []        # boundary-A events of the current case
SOLUTIONS = []      # boundary-C: every SchedulingSolution built in the current case
PRINTED = []        # raw argument tuples passed to the solver module's print
FAULT = {"unknown_at_check": None, "checks_seen": 0}
_INSTALLED = False


def count(key, n=1):
    COUNTERS[key] = COUNTERS.get(key, 0) + n


def reset_case():
    del TRACE[:]
    del HISTORY[:]
    del SOLUTIONS[:]
    del PRINTED[:]
    FAULT["unknown_at_check"] = None
    FAULT["checks_seen"] = 0
    CLOCK.virtual = False
    CLOCK.now = 0.0
    CLOCK.step = 0.0


class VirtualClock:
    """Stand-in for the `time` module inside processscheduler.solver.

    real mode: perf_counter is the real one.  virtual mode: every call
    advances by step/2, so that one check() (two calls) costs `step` virtual
    seconds — the time-based early stops of the incremental optimiser fire
    deterministically.
    """

    def __init__(self):
        self.virtual = False
        self.now = 0.0
        self.step = 0.0

    def perf_counter(self):
        if not self.virtual:
            return _real_time.perf_counter()
        self.now += self.step / 2.0
        return self.now

    def __getattr__(self, name):
        return getattr(_real_time, name)


CLOCK = VirtualClock()


def _wrap_z3_method(cls, name):
    orig = getattr(cls, name)

    def traced(self, *a, **kw):
        count(f"z3.{name}")
        if name == "check":
            FAULT["checks_seen"] += 1
            if FAULT["unknown_at_check"] is not None and FAULT["checks_seen"] == FAULT["unknown_at_check"]:
                TRACE.append({"op": "check", "solver": id(self), "result": "unknown", "forced": True})
                count("fault.forced_unknown")
                return z3.unknown
        res = orig(self, *a, **kw)
        ev = {"op": name, "solver": id(self)}
        if name == "check":
            ev["result"] = str(res)
        elif name in ("add", "assert_and_track"):
            ev["n"] = len(a)
        TRACE.append(ev)
        return res

    traced.__name__ = name
    traced._rtmon_wrapped = True
    setattr(cls, name, traced)


def install():
    """Install all wrappers (idempotent).  Must run before the first case."""
    global _INSTALLED
    if _INSTALLED:
        return
    for cls in (z3.Solver, z3.Optimize):
        for name in ("add", "assert_and_track", "push", "pop", "check", "model",
                     "unsat_core", "minimize", "maximize", "reason_unknown"):
            if hasattr(cls, name):
                _wrap_z3_method(cls, name)
    import processscheduler.solver as pss

    def rec_print(*args, **kw):
        PRINTED.append(args)

    pss.print = rec_print
    pss.time = CLOCK

    S = pss.SchedulingSolver

    def wrap_api(name):
        orig = getattr(S, name)

        def api(self, *a, **kw):
            count(f"api.{name}")
            ev = {"call": name, "solver": id(self)}
            HISTORY.append(ev)
            try:
                res = orig(self, *a, **kw)
            except BaseException as exc:  # noqa
                ev["raised"] = type(exc).__name__
                ev["msg"] = str(exc)[:200]
                raise
            ev["returned"] = "solution" if (res is not None and res is not False and name in (
                "solve", "find_another_solution", "find_another_solution_for_variable")) else repr(res)[:40]
            return res

        api.__name__ = name
        setattr(S, name, api)

    for name in ("initialize", "solve", "find_another_solution",
                 "find_another_solution_for_variable", "export_to_smt2"):
        wrap_api(name)

    orig_build = S.build_solution

    def build_solution(self, z3_sol):
        sol = orig_build(self, z3_sol)
        count("api.build_solution")
        SOLUTIONS.append((self, z3_sol, sol))
        return sol

    S.build_solution = build_solution
    _INSTALLED = True


def assert_repo_under_test():
    """The library imported must be the working tree in /repo (or RTMON_REPO)."""
    import processscheduler
    root = os.environ.get("RTMON_REPO", "/repo")
    f = os.path.realpath(processscheduler.__file__)
    if not f.startswith(os.path.realpath(root) + os.sep):
        sys.stderr.write(f"processscheduler imported from {f}, expected under {root}\n")
        sys.exit(3)
    return f


def check_results():
    """results of the z3 check() calls of the current case, in order"""
    return [e["result"] for e in TRACE if e["op"] == "check"]
