"""One monitored execution of the real library: build a Spec, steer it, call
the real solver under instrumentation, observe what comes back."""
import random
import traceback
import warnings

import z3

from . import instrument as ins
from . import build as bld
from . import observe as obs

import processscheduler as ps


def candidate_pins(spec, cand, pin_selections=True, pin_dynamic=True):
    """public-API pins that fix a fully specified candidate"""
    pins = []
    opt = {t["name"]: bool(t.get("optional")) for t in spec["tasks"]}
    for n, c in cand["tasks"].items():
        if c["scheduled"]:
            if opt[n]:
                pins.append({"pin": "sched", "task": n, "value": True})
            pins.append({"pin": "start", "task": n, "value": c["start"]})
            pins.append({"pin": "end", "task": n, "value": c["end"]})
        else:
            pins.append({"pin": "sched", "task": n, "value": False})
    sel_ids = {s["id"]: s for s in spec.get("selections", [])}
    if pin_selections:
        for key, chosen in cand.get("chosen", {}).items():
            tn, res = key.split("|", 1)
            if res in sel_ids and cand["tasks"][tn]["scheduled"]:
                for w in dict.fromkeys(sel_ids[res]["workers"]):
                    e = ["sel", res, w]
                    pins.append({"pin": "expr", "expr": e if w in chosen else ["not", e]})
    if pin_dynamic:
        for key, (s, e) in cand.get("dyn", {}).items():
            tn, w = key.split("|", 1)
            if cand["tasks"][tn]["scheduled"]:
                pins.append({"pin": "expr", "expr": ["==", ["busy_start", w, tn], s]})
                pins.append({"pin": "expr", "expr": ["==", ["busy_end", w, tn], e]})
    return pins


def make_solver(b, cfg):
    kw = {"problem": b.problem}
    for k in ("debug", "max_time", "parallel", "random_values", "logics", "verbosity", "optimizer",
              "max_iter", "optimize_priority", "save_intermediate_states", "save_intermediate_states_path"):
        if cfg.get(k) is not None:
            kw[k] = cfg[k]
    kw.setdefault("max_time", 30)
    return ps.SchedulingSolver(**kw)


def classify_checks(checks):
    if not checks:
        return "nocheck"
    return checks[-1]


def run_solve(spec, plan=None, keep=False):
    """Build + pin + solve once.  Returns a result dict:
       outcome: sat | unsat | unknown | build_error | exception
       sched  : observed schedule (when sat)
       checks : z3 check() results seen at boundary B
    """
    plan = plan or {}
    ins.reset_case()
    if plan.get("py_seed") is not None:
        random.seed(plan["py_seed"])
    res = {"outcome": None, "sched": None, "checks": [], "exc": None}
    try:
        with warnings.catch_warnings():
            warnings.simplefilter("ignore")
            staged = plan.get("staged")
            if plan.get("interleaved"):
                # another (multi-objective) problem is built first and SOLVED while the problem under test is half
                # declared: its tasks and resources exist, its constraints, indicators and objectives come afterwards
                other = ps.SchedulingProblem(name="Interleaved_other")
                o1 = ps.FixedDurationTask(name="io1", duration=3)
                o2 = ps.FixedDurationTask(name="io2", duration=2)
                ow = ps.Worker(name="iow")
                o1.add_required_resource(ow)
                o2.add_required_resource(ow)
                ps.ObjectiveMinimizeMakespan()
                ps.ObjectiveMinimizeFlowtime()
                b = bld.build(dict(spec, constraints=[], indicators=[], objectives=[]))
                b.spec = spec
                ps.SchedulingSolver(problem=other, max_time=30, **plan["interleaved"]).solve()
                cons = spec.get("constraints", [])
                late = [c for c in cons if c["kind"] in ("IndicatorTarget", "IndicatorBounds")]
                for c in cons:
                    if c not in late:
                        bld.mk_constraint(b, c)
                for i in spec.get("indicators", []):
                    bld.mk_indicator(b, i)
                for c in late:
                    bld.mk_constraint(b, c)
                for o in spec.get("objectives", []):
                    bld.mk_objective(b, o)
                ins.reset_case()
            elif staged:
                # the problem is declared in two stages with a complete solve in between: the first `first`
                # objectives, a warm-up solver run to the end, then the remaining objectives
                b = bld.build(dict(spec, objectives=spec["objectives"][:staged["first"]]))
                b.spec = spec
                res["warmup"] = bool(make_solver(b, staged.get("solver", {})).solve())
                for o in spec["objectives"][staged["first"]:]:
                    bld.mk_objective(b, o)
                ins.reset_case()
            else:
                b = bld.build(spec)
            bld.apply_pins(b, plan.get("pins", []))
    except bld.BuildError as exc:
        res["outcome"] = "build_error"
        res["exc"] = {"stage": exc.stage, "item": exc.item, "type": type(exc.exc).__name__,
                      "msg": str(exc.exc)[:300]}
        return res
    except Exception as exc:  # pins raised
        res["outcome"] = "build_error"
        res["exc"] = {"stage": "pins", "type": type(exc).__name__, "msg": str(exc)[:300]}
        return res
    cfg = plan.get("solver", {})
    if plan.get("clock_step"):
        ins.CLOCK.virtual = True
        ins.CLOCK.step = plan["clock_step"]
    if plan.get("unknown_at_check"):
        ins.FAULT["unknown_at_check"] = plan["unknown_at_check"]
    try:
        with warnings.catch_warnings(record=True) as wl:
            warnings.simplefilter("always")
            solver = make_solver(b, cfg)
            sol = solver.solve()
        res["warnings"] = [str(w.message)[:80] for w in wl][:5]
    except Exception as exc:  # pylint: disable=broad-except
        res["outcome"] = "exception"
        res["exc"] = {"type": type(exc).__name__, "msg": str(exc)[:300],
                      "tb": traceback.format_exc()[-800:]}
        res["checks"] = ins.check_results()
        if keep:
            res["_built"] = b
        return res
    res["checks"] = ins.check_results()
    if sol is False or sol is None:
        last = classify_checks(res["checks"])
        res["outcome"] = "unknown" if last == "unknown" else ("unsat" if last == "unsat" else "nosolution")
    else:
        res["outcome"] = "sat"
        res["sched"] = obs.observe(b, sol, solver._model)
        res["n_solutions_built"] = len(ins.SOLUTIONS)
    if keep:
        res["_built"] = b
        res["_solver"] = solver
        res["_solution"] = sol
    return res
