import argparse
import os
import sys


def main():
    if len(sys.argv) > 1 and sys.argv[1] == "--selftest":
        from rtmon import oracle_selftest
        sys.exit(oracle_selftest.main())
    from rtmon import runner
    ap = argparse.ArgumentParser()
    ap.add_argument("prop")
    ap.add_argument("--tier", default=os.environ.get("VERIF_TIER", "quick"))
    ap.add_argument("--seed", type=int, default=int(os.environ.get("VERIF_SEED", "0")))
    ap.add_argument("--replay")
    a = ap.parse_args()
    sys.exit(runner.run_check(a.prop.upper(), a.tier, a.seed, a.replay))


if __name__ == "__main__":
    main()
