"""Self-test of the z3-free oracle: hand-made schedules per clause (valid, each
way of being invalid, band).  Run by setup_cmd and importable by the checks."""
from rtmon import refsem as rs

T, F, B = rs.T, rs.F, rs.B


def P(tasks, busy=None, H=10, chosen=None, applied=None):
    return {"horizon": H, "tasks": {n: {"scheduled": v[0], "start": v[1], "end": v[2], "duration": v[2] - v[1]}
                                    for n, v in tasks.items()},
            "busy": busy or {}, "unit_busy": None, "chosen": chosen or {}, "applied": applied or {}}


SPEC = {"problem": {"horizon": 10},
        "tasks": [{"name": "a", "type": "Fixed", "duration": 2}, {"name": "b", "type": "Fixed", "duration": 3},
                  {"name": "o", "type": "Fixed", "duration": 1, "optional": True},
                  {"name": "v", "type": "Variable", "min_duration": 1, "max_duration": 4}],
        "workers": [{"name": "w"}], "cumulative": [{"name": "cu", "size": 2}],
        "selections": [{"id": "s1", "workers": ["w", "x"], "n": 1, "kind": "exact"},
                       {"id": "s2", "workers": ["w", "x"], "n": 1, "kind": "exact"}],
        "requirements": [{"task": "a", "resource": "s1"}, {"task": "b", "resource": "s2"}],
        "constraints": [], "buffers": [{"name": "bf", "initial": 2, "lower": 0}]}

CASES = [
    # (constraint node, plain schedule, expected)
    ({"kind": "TaskStartAt", "task": "a", "value": 3}, P({"a": (True, 3, 5)}), T),
    ({"kind": "TaskStartAt", "task": "a", "value": 3}, P({"a": (True, 4, 6)}), F),
    ({"kind": "TaskStartAt", "task": "o", "value": 3}, P({"o": (False, -1, -1)}), T),
    ({"kind": "TaskStartAfter", "task": "a", "value": 3, "mode": "strict"}, P({"a": (True, 3, 5)}), F),
    ({"kind": "TaskStartAfter", "task": "a", "value": 3, "mode": "lax"}, P({"a": (True, 3, 5)}), T),
    ({"kind": "TaskEndBefore", "task": "a", "value": 5, "mode": "strict"}, P({"a": (True, 3, 5)}), F),
    ({"kind": "TaskEndBefore", "task": "a", "value": 5, "mode": "lax"}, P({"a": (True, 3, 5)}), T),
    ({"kind": "TaskPrecedence", "before": "a", "after": "b", "offset": 1, "mode": "lax"},
     P({"a": (True, 0, 2), "b": (True, 3, 6)}), T),
    ({"kind": "TaskPrecedence", "before": "a", "after": "b", "offset": 1, "mode": "strict"},
     P({"a": (True, 0, 2), "b": (True, 3, 6)}), F),
    ({"kind": "TaskPrecedence", "before": "a", "after": "b", "offset": 1, "mode": "tight"},
     P({"a": (True, 0, 2), "b": (True, 4, 7)}), F),
    ({"kind": "TaskPrecedence", "before": "a", "after": "o", "mode": "lax"},
     P({"a": (True, 5, 7), "o": (False, -1, -1)}), T),
    ({"kind": "TasksDontOverlap", "t1": "a", "t2": "b"}, P({"a": (True, 0, 2), "b": (True, 2, 5)}), T),
    ({"kind": "TasksDontOverlap", "t1": "a", "t2": "b"}, P({"a": (True, 0, 2), "b": (True, 1, 4)}), F),
    ({"kind": "TasksContiguous", "tasks": ["a", "b"]}, P({"a": (True, 3, 5), "b": (True, 0, 3)}), T),
    ({"kind": "TasksContiguous", "tasks": ["a", "b"]}, P({"a": (True, 4, 6), "b": (True, 0, 3)}), F),
    ({"kind": "UnorderedTaskGroup", "tasks": ["a", "b"], "interval": [1, 6]},
     P({"a": (True, 1, 3), "b": (True, 3, 6)}), T),
    ({"kind": "UnorderedTaskGroup", "tasks": ["a", "b"], "interval": [1, 6]},
     P({"a": (True, 0, 2), "b": (True, 3, 6)}), F),
    ({"kind": "UnorderedTaskGroup", "tasks": ["a", "b"], "length": 5},
     P({"a": (True, 0, 2), "b": (True, 3, 6)}), F),
    ({"kind": "UnorderedTaskGroup", "tasks": ["a", "b"]}, P({"a": (True, 0, 2), "b": (True, 3, 6)}), T),
    ({"kind": "OrderedTaskGroup", "tasks": ["a", "b"], "interval": [0, 9], "mode": "tight"},
     P({"a": (True, 0, 2), "b": (True, 3, 6)}), F),
    ({"kind": "ScheduleNTasksInTimeIntervals", "tasks": ["a", "b"], "n": 1, "intervals": [[0, 3]], "mode": "exact"},
     P({"a": (True, 0, 2), "b": (True, 0, 3)}), F),
    ({"kind": "ScheduleNTasksInTimeIntervals", "tasks": ["a", "b"], "n": 1, "intervals": [[0, 3]], "mode": "min"},
     P({"a": (True, 0, 2), "b": (True, 0, 3)}), T),
    ({"kind": "ScheduleNTasksInTimeIntervals", "tasks": ["a", "b"], "n": 1, "intervals": [[0, 3]], "mode": "max"},
     P({"a": (True, 0, 2), "b": (True, 1, 4)}), B),
    ({"kind": "ScheduleNTasksInTimeIntervals", "tasks": ["a", "b"], "n": 1, "intervals": [[0, 3]], "mode": "max"},
     P({"a": (True, 0, 2), "b": (True, 3, 6)}), T),
    ({"kind": "ResourceUnavailable", "resource": "w", "intervals": [[2, 4]]},
     P({"a": (True, 0, 2)}, {"w": [("a", 0, 2)]}), T),
    ({"kind": "ResourceUnavailable", "resource": "w", "intervals": [[2, 4]]},
     P({"a": (True, 3, 5)}, {"w": [("a", 3, 5)]}), F),
    ({"kind": "ResourcePeriodicallyUnavailable", "resource": "w", "intervals": [[1, 3]], "period": 5},
     P({"v": (True, 3, 7)}, {"w": [("v", 3, 7)]}), F),
    ({"kind": "ResourcePeriodicallyUnavailable", "resource": "w", "intervals": [[1, 3]], "period": 5},
     P({"v": (True, 3, 6)}, {"w": [("v", 3, 6)]}), T),
    ({"kind": "ResourcePeriodicallyUnavailable", "resource": "w", "intervals": [[1, 3]], "period": 5, "end": 6},
     P({"a": (True, 6, 8)}, {"w": [("a", 6, 8)]}), T),
    ({"kind": "WorkLoad", "resource": "w", "map": [[2, 4, 2]], "mode": "exact"},
     P({"v": (True, 1, 5)}, {"w": [("v", 1, 5)]}), T),
    ({"kind": "WorkLoad", "resource": "w", "map": [[2, 4, 1]], "mode": "max"},
     P({"v": (True, 1, 5)}, {"w": [("v", 1, 5)]}), F),
    ({"kind": "ResourceTasksDistance", "resource": "w", "distance": 2, "mode": "exact"},
     P({}, {"w": [("a", 0, 2), ("b", 4, 7)]}), T),
    ({"kind": "ResourceTasksDistance", "resource": "w", "distance": 2, "mode": "min"},
     P({}, {"w": [("a", 0, 2), ("b", 3, 6)]}), F),
    ({"kind": "ResourceTasksDistance", "resource": "w", "distance": 2, "mode": "exact", "intervals": [[5, 9]]},
     P({}, {"w": [("a", 0, 2), ("b", 3, 6)]}), T),
    ({"kind": "ResourceNonDelay", "resource": "w"}, P({}, {"w": [("a", 0, 2), ("b", 3, 6)]}), F),
    ({"kind": "ResourceInterrupted", "resource": "w", "intervals": [[2, 3]]},
     P({"a": (True, 1, 3), "v": (True, 0, 1)}, {"w": [("a", 1, 3)]}), F),
    ({"kind": "ResourceInterrupted", "resource": "w", "intervals": [[2, 3]]},
     P({"v": (True, 1, 3)}, {"w": [("v", 1, 3)]}), T),
    ({"kind": "ResourceInterrupted", "resource": "w", "intervals": [[2, 3]]},
     P({"v": (True, 1, 6)}, {"w": [("v", 1, 6)]}), T),   # duration 5 = max 4 + overlap 1
    ({"kind": "ResourceInterrupted", "resource": "w", "intervals": [[2, 3]]},
     P({"v": (True, 2, 4)}, {"w": [("v", 2, 4)]}), T),
    ({"kind": "SameWorkers", "s1": "s1", "s2": "s2"},
     P({"a": (True, 0, 2), "b": (True, 2, 5)}, chosen={"a|s1": ["w"], "b|s2": ["x"]}), F),
    ({"kind": "DistinctWorkers", "s1": "s1", "s2": "s2"},
     P({"a": (True, 0, 2), "b": (True, 2, 5)}, chosen={"a|s1": ["w"], "b|s2": ["x"]}), T),
    ({"kind": "DistinctWorkers", "s1": "s1", "s2": "s2"},
     P({"a": (True, 0, 2), "b": (True, 2, 5)}, chosen={"a|s1": ["w"], "b|s2": ["w"]}), F),
    ({"kind": "Not", "arg": {"kind": "TaskStartAt", "task": "a", "value": 3}}, P({"a": (True, 3, 5)}), F),
    ({"kind": "Xor", "a": {"kind": "TaskStartAt", "task": "a", "value": 3},
      "b": {"kind": "expr", "expr": ["==", ["end", "a"], 5]}}, P({"a": (True, 3, 5)}), F),
    ({"kind": "Implies", "cond": [">", ["start", "a"], 1], "args": [{"kind": "TaskEndAt", "task": "a", "value": 9}]},
     P({"a": (True, 3, 5)}), F),
    ({"kind": "IfThenElse", "cond": [">", ["start", "a"], 5], "then": [{"kind": "TaskEndAt", "task": "a", "value": 9}],
      "else": [{"kind": "TaskEndAt", "task": "a", "value": 5}]}, P({"a": (True, 3, 5)}), T),
    ({"kind": "OptionalTasksDependency", "t1": "a", "t2": "o"}, P({"a": (True, 0, 2), "o": (False, -1, -1)}), F),
]


def main():
    bad = 0
    for c, p, want in CASES:
        got = rs.holds(SPEC, c, p)
        if got != want:
            bad += 1
            print("ORACLE SELFTEST FAIL", c, "got", got, "want", want)
    # C01 / C02 clauses
    rep = rs.Report()
    rs.c01_tasks(SPEC, P({"a": (True, -1, 1), "b": (True, 8, 11), "o": (False, -3, -3), "v": (True, 0, 5)}), rep)
    f = {c for c, _ in rep.failed()}
    if f != {"C01.start_nonneg", "C01.end_le_horizon", "C01.duration.max"}:
        bad += 1
        print("ORACLE SELFTEST FAIL c01", f)
    rep = rs.Report()
    rs.c02_resources(SPEC, P({"a": (True, 0, 2), "b": (True, 1, 4), "o": (False, -1, -1), "v": (True, 0, 1)},
                             {"w": [("a", 0, 2), ("b", 1, 4)]}, chosen={"a|s1": ["w"], "b|s2": ["w"]}), rep)
    if "C02.no_overlap.worker" not in {c for c, _ in rep.failed()}:
        bad += 1
        print("ORACLE SELFTEST FAIL c02", rep.failed())
    # buffer replay
    sp = dict(SPEC, constraints=[{"kind": "TaskUnloadBuffer", "task": "a", "buffer": "bf", "quantity": 2},
                                 {"kind": "TaskLoadBuffer", "task": "b", "buffer": "bf", "quantity": 1}])
    r = rs.buffer_replay(sp, "bf", P({"a": (True, 1, 3), "b": (True, 0, 3)}))
    if r["levels"] != [2, 0, 1] or r["times"] != [1, 3]:
        bad += 1
        print("ORACLE SELFTEST FAIL buffer", r)
    print(f"oracle selftest: {len(CASES) + 3} cases, {bad} failures")
    return 1 if bad else 0
