"""Worker subprocess: runs the cases of one shard under instrumentation and
writes one JSON line per case."""
import faulthandler
import json
import os
import sys
import threading
import time
import traceback

faulthandler.enable()

import matplotlib  # noqa: E402
matplotlib.use("Agg")

from rtmon import instrument as ins  # noqa: E402

ins.install()
ins.assert_repo_under_test()

from rtmon import runner  # noqa: E402


def run_one(mon, case):
    before = dict(ins.COUNTERS)
    t0 = time.time()
    try:
        res = mon.run_case(case)
    except Exception as exc:  # harness bug or unexpected library behaviour
        res = {"verdict": "inconclusive", "reason": f"harness:{type(exc).__name__}:{exc}"[:200],
               "tb": traceback.format_exc()[-1500:], "stats": {}}
    res.setdefault("stats", {})
    res["cid"] = case.get("cid")
    res["family"] = case.get("family")
    res["stats"]["counters"] = {k: v - before.get(k, 0) for k, v in ins.COUNTERS.items()
                                if v - before.get(k, 0)}
    res["wall"] = round(time.time() - t0, 3)
    if res["verdict"] == "violated":
        res["case"] = case
    return res


def main(argv):
    prop, mode = argv[0], argv[1]
    mon = runner.load_monitor(prop)
    if mode == "replay":
        with open(argv[2]) as f:
            cases = [json.load(f)]
        out_path = argv[3]
        done = 0
    else:
        tier, seed, shard, nshards, out_path = argv[2], int(argv[3]), int(argv[4]), int(argv[5]), argv[6]
        cases = mon.generate(tier, seed)[shard::nshards]
        done = 0
        if os.path.exists(out_path):
            with open(out_path) as f:
                done = sum(1 for l in f if l.strip())
    deadline = time.time() + float(os.environ.get("RTMON_SHARD_SECONDS", "1e9"))
    case_limit = float(os.environ.get("RTMON_CASE_SECONDS", "0") or 0) or float(
        getattr(mon, "CASE_SECONDS", 180))
    current = {"case": None, "t0": None}
    lock = threading.Lock()

    with open(out_path, "a") as out:
        def watchdog():
            # a generous wall-clock watchdog around every case: firing is inconclusive,
            # never a violation; the driver restarts the shard after the culprit
            while True:
                time.sleep(1.0)
                with lock:
                    c, t0 = current["case"], current["t0"]
                    if c is not None and time.time() - t0 > case_limit:
                        out.write(json.dumps({"cid": c.get("cid"), "family": c.get("family"),
                                              "verdict": "inconclusive",
                                              "reason": f"watchdog>{case_limit:.0f}s", "stats": {}}) + "\n")
                        out.flush()
                        os._exit(17)

        threading.Thread(target=watchdog, daemon=True).start()
        for case in cases[done:]:
            if time.time() > deadline:
                break
            with lock:
                current["case"], current["t0"] = case, time.time()
            res = run_one(mon, case)
            with lock:
                current["case"] = None
                out.write(json.dumps(res, default=str) + "\n")
                out.flush()
    return 0


if __name__ == "__main__":
    sys.exit(main(sys.argv[1:]))
