"""Candidate schedules: plain nested-loop enumeration over small grids.

A candidate fixes, for every task, the scheduled flag, start and end; for every
selection requirement the chosen subset; for every dynamic requirement the busy
span.  Auxiliary unknowns of the encoders are never part of a candidate.
"""
import itertools

from . import refsem as rs


def task_options(t, H, wide=True, lo=None, hi=None):
    """(scheduled, start, end) options of one task on a grid.
    wide=True also lists values a valid schedule can never take (before 0,
    beyond the horizon, durations outside the domain)."""
    lo = (-2 if wide else 0) if lo is None else lo
    hi = (H + 1 if wide else H) if hi is None else hi
    opts = []
    if t.get("optional"):
        opts.append((False, None, None))
    if t["type"] == "Fixed":
        durs = [t["duration"]]
        if wide:
            durs += [t["duration"] + 1] + ([t["duration"] - 1] if t["duration"] > 1 else [])
    elif t["type"] == "Zero":
        durs = [0] + ([1] if wide else [])
    else:
        mn = t.get("min_duration") or 0
        mx = t.get("max_duration")
        top = mx if mx is not None else max(mn + 2, 3)
        if t.get("allowed_durations") is not None:
            top = max(top, max(t["allowed_durations"]))
        a, b = (max(0, mn - 1), top + 1) if wide else (mn, top)
        durs = list(range(a, b + 1))
        if not wide and t.get("allowed_durations") is not None:
            durs = [d for d in durs if d in t["allowed_durations"]]
    for s in range(lo, hi + 1):
        for d in durs:
            if s + d <= hi + (1 if wide else 0) or wide:
                opts.append((True, s, s + d))
    return opts


def selection_options(sel, wide=True):
    ws = list(dict.fromkeys(sel["workers"]))      # a worker listed twice is one candidate
    out = []
    for k in range(0, len(ws) + 1):
        for sub in itertools.combinations(ws, k):
            out.append(list(sub))
    if not wide:
        n, kind = sel.get("n") or 1, sel.get("kind") or "exact"
        out = [s for s in out if {"exact": len(s) == n, "min": len(s) >= n, "max": len(s) <= n}[kind]]
    return out


def dynamic_options(s, e, wide=True):
    out = []
    a, b = (s - 1, e + 1) if wide else (s, e)
    for x in range(a, b + 1):
        for y in range(a, b + 1):
            if wide or x <= y:
                out.append((x, y))
    return out


def enumerate_candidates(spec, wide=True, limit=None, task_lo=None, task_hi=None, rng=None, dyn_wide=True,
                         sel_wide=None):
    """yield candidate dicts over the grid of the Spec (product space).  With
    `limit`, a uniform sample of about that size is drawn using rng."""
    H = spec["problem"].get("horizon")
    if H is None:
        raise ValueError("grid enumeration needs a horizon")
    names = [t["name"] for t in spec["tasks"]]
    per_task = [task_options(t, H, wide, task_lo, task_hi) for t in spec["tasks"]]
    sel_reqs = [r for r in spec.get("requirements", []) if rs.selection_spec(spec, r["resource"])]
    dyn_reqs = [r for r in spec.get("requirements", []) if r.get("dynamic")]
    # sel_wide: every subset of a selection's workers (wrong counts included) even on a narrow timing grid
    sel_opts = [selection_options(rs.selection_spec(spec, r["resource"]), wide if sel_wide is None else sel_wide)
                for r in sel_reqs]
    total = 1
    for o in per_task + sel_opts:
        total *= len(o)

    def mk(tcombo, scombo):
        cand = {"horizon": H, "tasks": {}, "chosen": {}, "dyn": {}}
        for n, (sc, s, e) in zip(names, tcombo):
            if sc:
                cand["tasks"][n] = {"scheduled": True, "start": s, "end": e}
            else:
                cand["tasks"][n] = {"scheduled": False, "start": -1, "end": -1}
        for r, ch in zip(sel_reqs, scombo):
            cand["chosen"][f"{r['task']}|{r['resource']}"] = ch
        return cand

    def with_dyn(cand):
        if not dyn_reqs:
            yield cand
            return
        lists = []
        for r in dyn_reqs:
            t = cand["tasks"][r["task"]]
            lists.append(dynamic_options(t["start"], t["end"], wide or dyn_wide) if t["scheduled"] else [(0, 0)])
        for combo in itertools.product(*lists):
            c2 = dict(cand)
            c2["dyn"] = {f"{r['task']}|{r['resource']}": list(d) for r, d in zip(dyn_reqs, combo)}
            yield c2

    for _r in dyn_reqs:
        total *= (H + 3) * (H + 4) // 2
    if limit is None or total <= limit:
        for tc in itertools.product(*per_task):
            for sc in itertools.product(*sel_opts):
                yield from with_dyn(mk(tc, sc))
    else:
        seen = set()
        tries = 0
        while len(seen) < limit and tries < limit * 20:
            tries += 1
            tc = tuple(rng.randrange(len(o)) for o in per_task)
            sc = tuple(rng.randrange(len(o)) for o in sel_opts)
            if (tc, sc) in seen:
                continue
            seen.add((tc, sc))
            cand = mk([o[i] for o, i in zip(per_task, tc)], [o[i] for o, i in zip(sel_opts, sc)])
            if dyn_reqs:
                cand["dyn"] = {}
                for r in dyn_reqs:
                    t = cand["tasks"][r["task"]]
                    opts = dynamic_options(t["start"], t["end"], wide or dyn_wide) if t["scheduled"] else [(0, 0)]
                    cand["dyn"][f"{r['task']}|{r['resource']}"] = list(opts[rng.randrange(len(opts))])
            yield cand


def grid_size(spec, wide=False):
    """number of candidates of the (non-sampled) grid"""
    H = spec["problem"].get("horizon")
    n = 1
    for t in spec["tasks"]:
        n *= len(task_options(t, H, wide))
    for r in spec.get("requirements", []):
        sel = rs.selection_spec(spec, r["resource"])
        if sel:
            n *= len(selection_options(sel, wide))
        if r.get("dynamic"):
            n *= (H + 3) * (H + 4) // 2
    return n


def classify(spec, cand):
    """('valid' | 'invalid' | 'band', report) under refsem"""
    rep, _P = rs.evaluate_candidate(spec, cand)
    if rep.failed():
        return "invalid", rep
    if rep.all_true():
        return "valid", rep
    return "band", rep


def cand_key(cand):
    return (tuple(sorted((n, t["scheduled"], t["start"] if t["scheduled"] else None,
                          t["end"] if t["scheduled"] else None) for n, t in cand["tasks"].items())),
            tuple(sorted((k, tuple(v)) for k, v in cand.get("chosen", {}).items())),
            tuple(sorted((k, tuple(v)) for k, v in cand.get("dyn", {}).items())))
