"""Independent readers for what the library exports (no pandas, no openpyxl, no
in-process z3 for SMT-LIB)."""
import ast
import csv
import io
import json
import re
import subprocess
import zipfile
import xml.etree.ElementTree as ET

NS = {"m": "http://schemas.openxmlformats.org/spreadsheetml/2006/main",
      "r": "http://schemas.openxmlformats.org/officeDocument/2006/relationships"}


def col_index(letters):
    n = 0
    for ch in letters:
        n = n * 26 + (ord(ch) - 64)
    return n - 1


def split_ref(ref):
    m = re.match(r"([A-Z]+)(\d+)$", ref)
    return int(m.group(2)) - 1, col_index(m.group(1))


def read_xlsx(path):
    """{sheet name: {"cells": {(row, col): value}, "merges": [((r0,c0),(r1,c1))]}}; blank formatted cells
    are reported with value None"""
    out = {}
    with zipfile.ZipFile(path) as z:
        shared = []
        if "xl/sharedStrings.xml" in z.namelist():
            root = ET.fromstring(z.read("xl/sharedStrings.xml"))
            for si in root.findall("m:si", NS):
                shared.append("".join(t.text or "" for t in si.iter("{%s}t" % NS["m"])))
        wb = ET.fromstring(z.read("xl/workbook.xml"))
        rels = ET.fromstring(z.read("xl/_rels/workbook.xml.rels"))
        relmap = {r.get("Id"): r.get("Target") for r in rels}
        for sh in wb.find("m:sheets", NS):
            name = sh.get("name")
            rid = sh.get("{%s}id" % NS["r"])
            target = relmap[rid]
            target = target if target.startswith("xl/") else "xl/" + target.lstrip("/")
            root = ET.fromstring(z.read(target))
            cells = {}
            for c in root.iter("{%s}c" % NS["m"]):
                pos = split_ref(c.get("r"))
                v = c.find("m:v", NS)
                t = c.get("t")
                if v is None:
                    is_ = c.find("m:is", NS)
                    if is_ is not None:
                        cells[pos] = "".join(x.text or "" for x in is_.iter("{%s}t" % NS["m"]))
                    else:
                        cells[pos] = None
                elif t == "s":
                    cells[pos] = shared[int(v.text)]
                elif t == "str":
                    cells[pos] = v.text
                else:
                    f = float(v.text)
                    cells[pos] = int(f) if f == int(f) else f
            merges = []
            mc = root.find("m:mergeCells", NS)
            if mc is not None:
                for m in mc:
                    a, b = m.get("ref").split(":")
                    merges.append((split_ref(a), split_ref(b)))
            out[name] = {"cells": cells, "merges": merges}
    return out


def read_csv_text(text, sep=","):
    rows = list(csv.reader(io.StringIO(text), delimiter=sep))
    header, body = rows[0], rows[1:]
    out = []
    for r in body:
        d = dict(zip(header, r))
        out.append(d)
    return header, out


def parse_list_cell(s):
    try:
        v = ast.literal_eval(s)
        return list(v)
    except Exception:  # pylint: disable=broad-except
        return s


def external_z3(smt_text, get_values=None, timeout=60, binary="/usr/bin/z3"):
    """runs the SMT-LIB text through the external z3 binary.  Returns
    {"status": sat|unsat|unknown|error, "values": {name: int|bool}, "raw": ...}"""
    text = smt_text
    if get_values:
        names = " ".join(n if re.match(r"^[A-Za-z_][A-Za-z0-9_]*$", n) else f"|{n}|" for n in get_values)
        text += f"\n(get-value ({names}))\n"
    try:
        p = subprocess.run([binary, "-in", "-smt2", f"-T:{timeout}"], input=text, capture_output=True, text=True,
                           timeout=timeout + 10)
    except subprocess.TimeoutExpired:
        return {"status": "unknown", "values": {}, "raw": "timeout"}
    raw = p.stdout
    status = "error"
    for line in raw.splitlines():
        ls = line.strip()
        if ls in ("sat", "unsat", "unknown"):
            status = ls
            break
    if "(error" in raw and status == "error":
        return {"status": "error", "values": {}, "raw": raw[:600]}
    vals = {}
    for m in re.finditer(r"\((\|[^|]+\||[^\s()]+)\s+(\(-\s*\d+\)|-?\d+|true|false)\)", raw):
        name = m.group(1).strip("|")
        v = m.group(2)
        if v in ("true", "false"):
            vals[name] = v == "true"
        else:
            v = v.replace("(", "").replace(")", "").replace(" ", "")
            vals[name] = int(v)
    return {"status": status, "values": vals, "raw": raw[:600]}


def read_json_text(text):
    return json.loads(text)
