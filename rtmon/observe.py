"""Turns what the library returned (public SchedulingSolution + hooked solver
state) into the plain `Sched` dict the z3-free oracles read.

Sched = {
  "horizon": int,
  "tasks":   {name: {"scheduled","start","end","duration","assigned":[...],
                     "start_time","end_time","duration_time"}},
  "assign":  {resource_name: [[task,start,end],...]}        public report
  "buffers": {name: {"level":[...], "times":[...]}}
  "indicators": {reported_name: value}
  "hook": {   (read from the z3 model through the live objects; None if absent)
     "tasks":   {name: {"start","end","duration","scheduled"}},
     "busy":    {"worker|task": [start,end]}   every busy interval of every unit/plain worker
     "selected":{"task|resource": [worker names whose selection boolean is true]}
     "applied": {constraint id: bool}
     "ind":     {indicator id: value}
     "horizon": int
  }
}
"""
import z3


def _val(model, term):
    v = model.eval(term, model_completion=True)
    if z3.is_int_value(v):
        return v.as_long()
    if z3.is_true(v):
        return True
    if z3.is_false(v):
        return False
    if z3.is_rational_value(v):
        return float(v.numerator_as_long()) / float(v.denominator_as_long())
    return str(v)


def public_view(solution):
    s = {
        "horizon": solution.horizon,
        "tasks": {},
        "assign": {},
        "buffers": {},
        "indicators": dict(solution.indicators),
    }
    for name, t in solution.tasks.items():
        s["tasks"][name] = {
            "scheduled": bool(t.scheduled),
            "start": t.start,
            "end": t.end,
            "duration": t.duration,
            "assigned": list(t.assigned_resources),
            "type": t.type,
            "optional": t.optional,
            "start_time": t.start_time.isoformat() if hasattr(t.start_time, "isoformat") else (
                None if t.start_time is None else str(t.start_time)),
            "end_time": t.end_time.isoformat() if hasattr(t.end_time, "isoformat") else (
                None if t.end_time is None else str(t.end_time)),
            "duration_time": None if t.duration_time is None else t.duration_time.total_seconds(),
            "start_time_raw": t.start_time,
            "end_time_raw": t.end_time,
        }
    for name, r in solution.resources.items():
        s["assign"][name] = [[a[0], a[1], a[2]] for a in r.assignments]
    for name, bf in solution.buffers.items():
        s["buffers"][name] = {"level": list(bf.level), "times": list(bf.level_change_times)}
    return s


def hooked_view(b, model):
    h = {"tasks": {}, "busy": {}, "selected": {}, "applied": {}, "ind": {}}
    h["horizon"] = _val(model, b.problem._horizon)
    for name, t in b.tasks.items():
        d = {"start": _val(model, t._start), "end": _val(model, t._end)}
        d["duration"] = _val(model, t._duration) if hasattr(t, "_duration") else None
        d["scheduled"] = True if t._scheduled is True else _val(model, t._scheduled)
        h["tasks"][name] = d
    for wname, w in b.workers.items():
        for task, (lo, hi) in w._busy_intervals.items():
            h["busy"][f"{wname}|{task.name}"] = [_val(model, lo), _val(model, hi)]
    for r in b.spec.get("requirements", []):
        sel = b.selection_for(r)
        if sel is None:
            continue
        h["selected"][f"{r['task']}|{r['resource']}"] = [
            w.name for w, v in sel._selection_dict.items() if _val(model, v) is True]
    for cid, c in b.constraints.items():
        h["applied"][cid] = True if c._applied is True else _val(model, c._applied)
    for iid, ind in b.indicators.items():
        h["ind"][iid] = _val(model, ind._indicator_variable)
    return h


def observe(b, solution, model=None):
    s = public_view(solution)
    s["hook"] = hooked_view(b, model) if model is not None else None
    # reported indicator names keyed by spec id
    s["ind_names"] = {iid: ind.name for iid, ind in b.indicators.items()}
    return s


def strip_raw(s):
    """JSON-able copy (drops datetime objects)."""
    out = dict(s)
    out["tasks"] = {n: {k: v for k, v in t.items() if not k.endswith("_raw")}
                    for n, t in s["tasks"].items()}
    return out
