"""refsem — the documented semantics of ProcessScheduler evaluated on a concrete
schedule.  z3-free; written from docs/*.md, class docstrings and the property
statements, never from the encoders.

A *plain schedule* P is

  {"horizon": H,
   "tasks":  {name: {"scheduled","start","end","duration"}},
   "busy":   {resource: [(task,s,e),...]}     actual assignments, plain workers and
                                              cumulative workers (by their own name)
   "unit_busy": {cumulative: {unit: [(task,s,e)]}} | None     hooked, observed only
   "chosen": {"task|resource": [worker,...]}  | missing
   "applied":{constraint id: bool}            | {}
   "levels": ...                              (observed only; C09)
  }

Every clause evaluates to T (holds under every reasonable reading), F (fails
under every reasonable reading) or B (ambiguity band: never judged).
Soundness monitors flag F only; completeness monitors probe only candidates
whose clauses are all T.
"""
import itertools
import math

T, F, B = "T", "F", "B"


class Report:
    def __init__(self):
        self.items = []   # (clause, outcome, detail)

    def add(self, clause, outcome, **detail):
        self.items.append((clause, outcome, detail))

    def failed(self, prefix=None):
        return [(c, d) for c, o, d in self.items if o == F and (prefix is None or c.startswith(prefix))]

    def band(self):
        return [(c, d) for c, o, d in self.items if o == B]

    def all_true(self):
        return all(o == T for _, o, _ in self.items)

    def counts(self):
        out = {}
        for c, o, _ in self.items:
            k = f"{c}:{o}"
            out[k] = out.get(k, 0) + 1
        return out


# ---------------------------------------------------------------------------
# helpers on specs
# ---------------------------------------------------------------------------
def task_spec(spec, name):
    for t in spec["tasks"]:
        if t["name"] == name:
            return t
    raise KeyError(name)


def worker_spec(spec, name):
    for w in spec.get("workers", []):
        if w["name"] == name:
            return w
    return None


def cumulative_spec(spec, name):
    for c in spec.get("cumulative", []):
        if c["name"] == name:
            return c
    return None


def selection_spec(spec, sid):
    for s in spec.get("selections", []):
        if s["id"] == sid:
            return s
    return None


def unit_names(c):
    return [f"{c['name']}_CumulativeWorker_{i+1}" for i in range(c["size"])]


def distribute(p, n):
    """how the library documents the split of an integer over n unit workers:
    'a productivity of 7 for a size of 3 will be distributed as 3, 2, 2'"""
    return [p // n + p % n] + [p // n] * (n - 1)


def all_constraints(spec):
    """every constraint node of the spec, nested ones included: (node, is_top)"""
    out = []

    def rec(c, top):
        out.append((c, top))
        for a in operands(c):
            if isinstance(a, dict) and a.get("kind") != "expr":
                rec(a, False)

    for c in spec.get("constraints", []):
        rec(c, True)
    return out


def operands(c):
    k = c["kind"]
    if k == "Not":
        return [c["arg"]]
    if k in ("And", "Or", "Implies"):
        return list(c["args"])
    if k == "Xor":
        return [c["a"], c["b"]]
    if k == "IfThenElse":
        return list(c["then"]) + list(c["else"])
    return []


def tasks_named(c):
    """names of the tasks a (non-logic) constraint node mentions"""
    out = []
    for key in ("task", "before", "after", "t1", "t2"):
        if key in c and isinstance(c[key], str):
            out.append(c[key])
    if "tasks" in c:
        out.extend(c["tasks"])
    return out


# ---------------------------------------------------------------------------
# expression evaluation (mini-AST)
# ---------------------------------------------------------------------------
class Band(Exception):
    pass


def ev(e, spec, P):
    """value of a mini-AST expression on P; raises Band if it reads a quantity
    whose meaning is undefined (timing of an unscheduled task, unknown hook)."""
    if isinstance(e, (bool, int)):
        return e
    op = e[0]
    if op in ("start", "end", "duration"):
        t = P["tasks"][e[1]]
        if not t["scheduled"]:
            raise Band(f"{op} of unscheduled {e[1]}")
        return t[op]
    if op == "sched":
        return bool(P["tasks"][e[1]]["scheduled"])
    if op == "horizon":
        return P["horizon"]
    if op == "ind":
        v = indicator_value(spec, _ind_spec(spec, e[1]), P)
        if v is None or isinstance(v, tuple):
            raise Band("indicator")
        return v
    if op in ("busy_start", "busy_end"):
        for (tk, s, en) in P["busy"].get(e[1], []):
            if tk == e[2]:
                return s if op == "busy_start" else en
        raise Band("no busy interval")
    if op == "sel":
        key = e[1] if isinstance(e[1], str) else "|".join(e[1])
        for k, v in P.get("chosen", {}).items():
            if k.endswith("|" + key) or k == key:
                return e[2] in v
        raise Band("selection unknown")
    if op == "applied":
        if e[1] in P.get("applied", {}):
            return bool(P["applied"][e[1]])
        raise Band("applied unknown")
    if op == "level":
        raise Band("level")
    a = [ev(x, spec, P) for x in e[1:]]
    if op == "+":
        return a[0] + a[1]
    if op == "-":
        return a[0] - a[1]
    if op == "*":
        return a[0] * a[1]
    if op == "<":
        return a[0] < a[1]
    if op == "<=":
        return a[0] <= a[1]
    if op == ">":
        return a[0] > a[1]
    if op == ">=":
        return a[0] >= a[1]
    if op == "==":
        return a[0] == a[1]
    if op == "!=":
        return a[0] != a[1]
    if op == "and":
        return all(a)
    if op == "or":
        return any(a)
    if op == "not":
        return not a[0]
    if op == "ite":
        return a[1] if a[0] else a[2]
    raise ValueError(op)


def _ind_spec(spec, iid):
    for i in spec.get("indicators", []):
        if i["id"] == iid:
            return i
    raise KeyError(iid)


# ---------------------------------------------------------------------------
# from candidate / observed to plain schedule
# ---------------------------------------------------------------------------
def plain_from_candidate(spec, cand):
    """cand = {"horizon":H, "tasks":{n:{"scheduled","start","end"}},
               "chosen":{"task|res":[workers]}, "dyn":{"task|worker":[s,e]}}"""
    P = {"horizon": cand["horizon"], "tasks": {}, "busy": {}, "unit_busy": None,
         "chosen": dict(cand.get("chosen", {})), "applied": dict(cand.get("applied", {}))}
    for t in spec["tasks"]:
        c = cand["tasks"][t["name"]]
        P["tasks"][t["name"]] = {"scheduled": c["scheduled"], "start": c["start"], "end": c["end"],
                                 "duration": c["end"] - c["start"]}
    for r in spec.get("requirements", []):
        t = P["tasks"][r["task"]]
        if not t["scheduled"]:
            continue
        res = r["resource"]
        key = f"{r['task']}|{res}"
        if worker_spec(spec, res) is not None:
            if r.get("dynamic"):
                s, e = cand["dyn"][key]
            else:
                s, e = t["start"] + (r.get("delay_in") or 0), t["end"] - (r.get("early_out") or 0)
            P["busy"].setdefault(res, []).append((r["task"], s, e))
        elif cumulative_spec(spec, res) is not None:
            P["busy"].setdefault(res, []).append((r["task"], t["start"], t["end"]))
        else:
            for w in P["chosen"].get(key, []):
                P["busy"].setdefault(w, []).append((r["task"], t["start"], t["end"]))
    return P


def plain_from_observed(spec, S):
    """S: Sched from observe.observe().  Public report only, plus hooks where
    the report merges information away."""
    P = {"horizon": S["horizon"], "tasks": {}, "busy": {}, "unit_busy": None,
         "chosen": {}, "applied": {}}
    for n, t in S["tasks"].items():
        P["tasks"][n] = {"scheduled": t["scheduled"], "start": t["start"], "end": t["end"],
                         "duration": t["duration"]}
    for res, lst in S["assign"].items():
        P["busy"][res] = [tuple(a) for a in lst]
    h = S.get("hook")
    if h:
        P["applied"] = dict(h["applied"])
        P["chosen"] = {k: list(v) for k, v in h["selected"].items()}
        ub = {}
        for c in spec.get("cumulative", []):
            ub[c["name"]] = {}
            for u in unit_names(c):
                lst = []
                for key, (s, e) in h["busy"].items():
                    w, tk = key.split("|", 1)
                    if w == u and s >= 0 and e >= 0:
                        lst.append((tk, s, e))
                ub[c["name"]][u] = lst
        P["unit_busy"] = ub
    else:
        for r in spec.get("requirements", []):
            sel = selection_spec(spec, r["resource"])
            if sel is not None:
                P["chosen"][f"{r['task']}|{r['resource']}"] = [
                    w for w in sel["workers"]
                    if any(a[0] == r["task"] for a in P["busy"].get(w, []))]
    return P


# ---------------------------------------------------------------------------
# C01 task timing
# ---------------------------------------------------------------------------
def interruption_overlap(spec, P, tname):
    """total length of interruption intervals crossed by task `tname` through
    any ResourceInterrupted / ResourcePeriodicallyInterrupted constraint on a
    resource it occupies; None when none applies."""
    total = None
    for c, _top in all_constraints(spec):
        if c["kind"] not in ("ResourceInterrupted", "ResourcePeriodicallyInterrupted"):
            continue
        for (tk, s, e) in P["busy"].get(c["resource"], []):
            if tk != tname:
                continue
            ov = 0
            for lo, hi in windows(c, s, e):
                if s < hi and e > lo:
                    ov += hi - lo
            total = (total or 0) + ov
    return total


def c01_tasks(spec, P, rep, user_horizon=True):
    H = spec["problem"].get("horizon") if user_horizon else None
    if H is None:
        H = P["horizon"]
    for t in spec["tasks"]:
        n = t["name"]
        x = P["tasks"][n]
        if not x["scheduled"]:
            continue
        rep.add("C01.start_nonneg", T if x["start"] >= 0 else F, task=n, start=x["start"])
        rep.add("C01.end_le_horizon", T if x["end"] <= H else F, task=n, end=x["end"], horizon=H)
        rep.add("C01.span_eq_duration", T if x["end"] - x["start"] == x["duration"] else F,
                task=n, start=x["start"], end=x["end"], duration=x["duration"])
        d = x["duration"]
        if t["type"] == "Fixed":
            rep.add("C01.duration.fixed", T if d == t["duration"] else F, task=n, duration=d)
        elif t["type"] == "Zero":
            rep.add("C01.duration.zero", T if d == 0 else F, task=n, duration=d)
        else:
            ov = interruption_overlap(spec, P, n)
            mn = t.get("min_duration") or 0
            if ov is None:
                rep.add("C01.duration.min", T if d >= mn else F, task=n, duration=d, min=mn)
            else:
                rep.add("C01.duration.min", T if d >= mn else F, task=n, duration=d, min=mn)
            if t.get("max_duration") is not None:
                mx = t["max_duration"]
                if d <= mx:
                    rep.add("C01.duration.max", T, task=n)
                elif ov is not None and d <= mx + ov:
                    rep.add("C01.duration.max", B, task=n, duration=d, max=mx, overlap=ov)
                else:
                    rep.add("C01.duration.max", F, task=n, duration=d, max=mx)
            if t.get("allowed_durations") is not None:
                if d in t["allowed_durations"]:
                    rep.add("C01.duration.allowed", T, task=n)
                elif ov:
                    rep.add("C01.duration.allowed", B, task=n, duration=d)
                else:
                    rep.add("C01.duration.allowed", F, task=n, duration=d,
                            allowed=t["allowed_durations"])
        if t.get("release_date") is not None:
            rep.add("C01.release", T if x["start"] >= t["release_date"] else F,
                    task=n, start=x["start"], release=t["release_date"])
        if t.get("due_date") is not None and t.get("due_date_is_deadline", True):
            rep.add("C01.deadline", T if x["end"] <= t["due_date"] else F,
                    task=n, end=x["end"], due=t["due_date"])


# ---------------------------------------------------------------------------
# C02 resources
# ---------------------------------------------------------------------------
def _pair_overlap(a, b):
    """do two busy intervals share a unit period / does a zero-length one sit
    strictly inside the other?  returns T (disjoint), F (share a period), B"""
    (_, s1, e1), (_, s2, e2) = a, b
    if max(s1, s2) < min(e1, e2):
        return F
    if s1 == e1 and s2 < s1 < e2:
        return B
    if s2 == e2 and s1 < s2 < e1:
        return B
    if s1 == e1 and s2 == e2 and s1 == s2:
        return B   # two zero-length intervals at one instant on one worker
    return T


def c02_resources(spec, P, rep):
    # no two tasks at overlapping times on a plain worker
    for w in spec.get("workers", []):
        lst = P["busy"].get(w["name"], [])
        for a, b in itertools.combinations(lst, 2):
            o = _pair_overlap(a, b)
            rep.add("C02.no_overlap.worker", {T: T, F: F, B: B}[o], worker=w["name"], a=list(a), b=list(b))
    # cumulative capacity, counted in tasks at every unit period
    for c in spec.get("cumulative", []):
        lst = P["busy"].get(c["name"], [])
        pts = sorted({s for _, s, _ in lst})
        worst = 0
        wt = None
        for p in pts:
            k = len({tk for tk, s, e in lst if s <= p < e})
            if k > worst:
                worst, wt = k, p
        if lst:
            zero_inside = any(s == e and any(s2 < s < e2 for _, s2, e2 in lst) for _, s, e in lst)
            rep.add("C02.capacity.cumulative", T if worst <= c["size"] else F,
                    cumulative=c["name"], at=wt, load=worst, size=c["size"])
            if zero_inside:
                rep.add("C02.capacity.cumulative.zero_len", B, cumulative=c["name"])
        if P.get("unit_busy") and c["name"] in P["unit_busy"]:
            for u, ul in P["unit_busy"][c["name"]].items():
                for a, b in itertools.combinations(ul, 2):
                    o = _pair_overlap(a, b)
                    rep.add("C02.no_overlap.unit", o, unit=u, a=list(a), b=list(b))
    # every scheduled task occupies each required worker for the implied span
    for r in spec.get("requirements", []):
        tn = r["task"]
        x = P["tasks"][tn]
        if not x["scheduled"]:
            continue
        res = r["resource"]
        key = f"{tn}|{res}"
        if worker_spec(spec, res) is not None:
            mine = [a for a in P["busy"].get(res, []) if a[0] == tn]
            if r.get("dynamic"):
                if len(mine) != 1:
                    rep.add("C02.occupies.dynamic", F, task=tn, worker=res, found=[list(a) for a in mine])
                else:
                    _, s, e = mine[0]
                    ok = x["start"] <= s <= e <= x["end"]
                    rep.add("C02.occupies.dynamic", T if ok else F, task=tn, worker=res, busy=[s, e],
                            span=[x["start"], x["end"]])
            else:
                di, eo = r.get("delay_in") or 0, r.get("early_out") or 0
                want = (tn, x["start"] + di, x["end"] - eo)
                cl = "C02.occupies.delayed" if (di or eo) else "C02.occupies.static"
                if want[1] > want[2]:
                    rep.add(cl, B, task=tn, worker=res)
                else:
                    rep.add(cl, T if mine == [want] else F, task=tn, worker=res,
                            want=list(want), found=[list(a) for a in mine])
        elif cumulative_spec(spec, res) is not None:
            mine = [a for a in P["busy"].get(res, []) if a[0] == tn]
            want = (tn, x["start"], x["end"])
            rep.add("C02.occupies.cumulative", T if mine == [want] else F, task=tn, cumulative=res,
                    want=list(want), found=[list(a) for a in mine])
        else:
            sel = selection_spec(spec, res)
            chosen = P["chosen"].get(key)
            if chosen is None:
                continue
            rep.add("C02.selection.subset", T if set(chosen) <= set(sel["workers"]) else F,
                    task=tn, selection=res, chosen=chosen)
            k, n = sel.get("kind") or "exact", sel.get("n") or 1
            cnt = len(set(chosen))
            ok = {"exact": cnt == n, "min": cnt >= n, "max": cnt <= n}[k]
            rep.add(f"C02.selection.count.{k}", T if ok else F, task=tn, selection=res,
                    chosen=chosen, n=n)
            want = (tn, x["start"], x["end"])
            for w in sel["workers"]:
                mine = [a for a in P["busy"].get(w, []) if a[0] == tn]
                # another requirement of the same task on the same worker would blur this
                if w in chosen:
                    rep.add("C02.occupies.selected", T if want in mine else F, task=tn, worker=w,
                            want=list(want), found=[list(a) for a in mine])
                else:
                    rep.add("C02.occupies.unselected_free", T if not mine else F, task=tn, worker=w,
                            found=[list(a) for a in mine])
    # work amount
    for t in spec["tasks"]:
        wa = t.get("work_amount") or 0
        x = P["tasks"][t["name"]]
        if wa <= 0 or not x["scheduled"]:
            continue
        reqs = [r for r in spec.get("requirements", []) if r["task"] == t["name"]]
        if not reqs:
            continue
        total_lo = 0   # pessimistic reading
        total_hi = 0   # generous reading
        for r in reqs:
            res = r["resource"]
            w = worker_spec(spec, res)
            if w is not None:
                for a in P["busy"].get(res, []):
                    if a[0] == t["name"]:
                        p = w.get("productivity", 1) if w.get("productivity") is not None else 1
                        total_lo += p * (a[2] - a[1])
                        total_hi += p * (a[2] - a[1])
            elif cumulative_spec(spec, res) is not None:
                c = cumulative_spec(spec, res)
                p = c.get("productivity") or 1
                parts = distribute(p, c["size"])
                span = x["end"] - x["start"]
                if any(a[0] == t["name"] for a in P["busy"].get(res, [])):
                    total_lo += min(parts) * span
                    total_hi += p * span
            else:
                sel = selection_spec(spec, res)
                for wn in P["chosen"].get(f"{t['name']}|{res}", []):
                    w = worker_spec(spec, wn)
                    p = 1 if w is None or w.get("productivity") is None else w["productivity"]
                    total_lo += p * (x["end"] - x["start"])
                    total_hi += p * (x["end"] - x["start"])
        if total_lo >= wa:
            rep.add("C02.work_amount", T, task=t["name"])
        elif total_hi >= wa:
            rep.add("C02.work_amount", B, task=t["name"], work=total_lo, work_hi=total_hi, amount=wa)
        else:
            rep.add("C02.work_amount", F, task=t["name"], work=total_hi, amount=wa)


# ---------------------------------------------------------------------------
# constraint truth values (C03, C04, C06 rules, C10)
# ---------------------------------------------------------------------------
def tri_not(a):
    return {T: F, F: T, B: B}[a]


def tri_and(vals):
    vals = list(vals)
    if any(v == F for v in vals):
        return F
    if all(v == T for v in vals):
        return T
    return B


def tri_or(vals):
    vals = list(vals)
    if any(v == T for v in vals):
        return T
    if all(v == F for v in vals):
        return F
    return B


def _b(x):
    return T if x else F


def windows(c, s, e):
    """interruption / unavailability windows of constraint c relevant for [s,e]"""
    if "period" not in c:
        return [tuple(i) for i in c["intervals"]]
    per, off = c["period"], c.get("offset") or 0
    out = []
    for lo, hi in c["intervals"]:
        k0 = (min(s, 0) - hi - off) // per - 1
        k1 = (max(e, 0) - lo - off) // per + 1
        for k in range(k0, k1 + 1):
            out.append((lo + off + k * per, hi + off + k * per))
    return out


def _exempt(c, s, e):
    """busy interval entirely outside the activity window [start, end) of a
    periodic constraint?"""
    st, en = c.get("start") or 0, c.get("end")
    if st > 0 and e <= st:
        return True
    if en is not None and s >= en:
        return True
    return False


def _inside_activity(c, lo, hi):
    """does [lo,hi) intersect the activity window?"""
    st, en = c.get("start") or 0, c.get("end")
    a, b = max(lo, st), hi if en is None else min(hi, en)
    return a < b


def holds(spec, c, P):
    """truth value of constraint node c on P: T / F / B."""
    k = c["kind"]
    tk = P["tasks"]

    def val(v):
        return v if isinstance(v, int) else ev(v, spec, P)

    try:
        if k == "expr":
            return _b(ev(c["expr"], spec, P))
        if k == "FromExpression":
            return _b(ev(c["expr"], spec, P))
        if k in ("TaskStartAt", "TaskEndAt", "TaskStartAfter", "TaskEndBefore"):
            x = tk[c["task"]]
            if not x["scheduled"]:
                return T
            v = val(c["value"])
            if k == "TaskStartAt":
                return _b(x["start"] == v)
            if k == "TaskEndAt":
                return _b(x["end"] == v)
            strict = (c.get("mode") or "lax") == "strict"
            if k == "TaskStartAfter":
                return _b(x["start"] > v if strict else x["start"] >= v)
            return _b(x["end"] < v if strict else x["end"] <= v)
        if k == "TaskPrecedence":
            if isinstance(c["before"], dict) or isinstance(c["after"], dict):
                # precedence between task groups: every scheduled task of the first group is completed
                # (plus the offset) before any scheduled task of the second one starts
                by_id = {x.get("id"): x for x, _ in all_constraints(spec)}

                def members(x):
                    names = by_id[x["group"]]["tasks"] if isinstance(x, dict) else [x]
                    return [tk[n] for n in names if tk[n]["scheduled"]]
                A, Bm = members(c["before"]), members(c["after"])
                if not A or not Bm:
                    return T
                lower = max(x["end"] for x in A) + (c.get("offset") or 0)
                upper = min(x["start"] for x in Bm)
                m = c.get("mode") or "lax"
                if m == "tight":
                    return B if lower <= upper else F      # the groups' own bounds are free: 'tight' is not pinned down
                return _b(lower <= upper if m == "lax" else lower < upper)
            a, b = tk[c["before"]], tk[c["after"]]
            if not (a["scheduled"] and b["scheduled"]):
                return T
            lower = a["end"] + (c.get("offset") or 0)
            m = c.get("mode") or "lax"
            return _b({"lax": lower <= b["start"], "strict": lower < b["start"],
                       "tight": lower == b["start"]}[m])
        if k in ("TasksStartSynced", "TasksEndSynced", "TasksDontOverlap"):
            a, b = tk[c["t1"]], tk[c["t2"]]
            if not (a["scheduled"] and b["scheduled"]):
                return T
            if k == "TasksStartSynced":
                return _b(a["start"] == b["start"])
            if k == "TasksEndSynced":
                return _b(a["end"] == b["end"])
            return _b(a["end"] <= b["start"] or b["end"] <= a["start"])
        if k == "TasksContiguous":
            lst = sorted((tk[n]["start"], tk[n]["end"]) for n in c["tasks"] if tk[n]["scheduled"])
            if len(lst) < 2:
                return T
            contiguous = all(lst[i + 1][0] == lst[i][1] for i in range(len(lst) - 1))
            if any(s == e for s, e in lst):
                return B
            return _b(contiguous)
        if k in ("UnorderedTaskGroup", "OrderedTaskGroup"):
            names = [n for n in c["tasks"] if tk[n]["scheduled"]]
            res = T
            if names:
                if c.get("interval") is not None:
                    lo, hi = c["interval"]
                    res = _b(all(tk[n]["start"] >= lo and tk[n]["end"] <= hi for n in names))
                elif c.get("length") is not None:
                    span = max(tk[n]["end"] for n in names) - min(tk[n]["start"] for n in names)
                    res = _b(span <= c["length"])
            if k == "OrderedTaskGroup" and res != F:
                # the order holds between consecutive SCHEDULED members (an unscheduled member is as if deleted)
                m = c.get("mode") or "lax"
                for n0, n1 in zip(names, names[1:]):
                    a, b = tk[n0], tk[n1]
                    ok = {"lax": a["end"] <= b["start"], "strict": a["end"] < b["start"],
                          "tight": a["end"] == b["start"]}[m]
                    if not ok:
                        return F
            return res
        if k == "ScheduleNTasksInTimeIntervals":
            lo_cnt = hi_cnt = 0
            for n in c["tasks"]:
                x = tk[n]
                if x["scheduled"] and any(x["start"] >= lo and x["end"] <= hi for lo, hi in c["intervals"]):
                    hi_cnt += 1
                    # a zero-length task sitting on an interval bound is inside and outside at once
                    if not (x["start"] == x["end"] and all(
                            not (lo < x["start"] < hi) for lo, hi in c["intervals"])):
                        lo_cnt += 1
            m, nn = c.get("mode") or "exact", c["n"]
            oks = [{"exact": v == nn, "min": v >= nn, "max": v <= nn}[m] for v in range(lo_cnt, hi_cnt + 1)]
            if not any(oks):
                return F
            if not all(oks):
                return B
            # a task that overlaps an interval without lying inside any: the statement counts
            # tasks "lying inside"; the repository's tests expect such tasks to be excluded
            for n in c["tasks"]:
                x = tk[n]
                if not x["scheduled"]:
                    continue
                inside = any(x["start"] >= lo and x["end"] <= hi for lo, hi in c["intervals"])
                touch = any(x["start"] < hi and x["end"] > lo for lo, hi in c["intervals"])
                if touch and not inside:
                    return B
            return T
        if k == "OptionalTaskForceSchedule":
            return _b(tk[c["task"]]["scheduled"] == c["value"])
        if k == "OptionalTaskConditionSchedule":
            return _b(tk[c["task"]]["scheduled"] == bool(ev(c["cond"], spec, P)))
        if k == "OptionalTasksDependency":
            a, b = tk[c["t1"]]["scheduled"], tk[c["t2"]]["scheduled"]
            if a and not b:
                return F
            if a == b:
                return T
            return B      # docs: implication; docstring: equivalence
        if k == "ForceScheduleNOptionalTasks":
            cnt = sum(1 for n in c["tasks"] if tk[n]["scheduled"])
            m, nn = c.get("mode") or "exact", c.get("n") or 1
            return _b({"exact": cnt == nn, "min": cnt >= nn, "max": cnt <= nn}[m])
        if k in ("TaskLoadBuffer", "TaskUnloadBuffer"):
            return T
        if k in ("ResourceUnavailable", "ResourcePeriodicallyUnavailable"):
            res = T
            for (_tn, s, e) in P["busy"].get(c["resource"], []):
                if "period" in c and _exempt(c, s, e):
                    continue
                for lo, hi in windows(c, s, e):
                    if s >= hi or e <= lo:
                        continue
                    if s == e:
                        res = tri_and([res, B])
                        continue
                    if "period" in c and not _inside_activity(c, max(lo, s), min(hi, e)):
                        res = tri_and([res, B])
                        continue
                    return F
            return res
        if k == "WorkLoad":
            res = T
            cum = cumulative_spec(spec, c["resource"])
            for lo, hi, bound in c["map"]:
                lst = P["busy"].get(c["resource"], [])
                sums = [sum(max(0, min(e, hi) - max(s, lo)) for _, s, e in lst)]
                if cum is not None:
                    pts = set()
                    for _, s, e in lst:
                        pts.update(range(max(s, lo), min(e, hi)))
                    sums.append(len(pts))   # time during which the resource is busy at all
                    if P.get("unit_busy") and c["resource"] in P["unit_busy"]:
                        sums.append(sum(max(0, min(e, hi) - max(s, lo))
                                        for ul in P["unit_busy"][c["resource"]].values() for _, s, e in ul))
                    else:
                        sums.append(None)
                m = c.get("mode") or "max"
                oks = [None if v is None else {"exact": v == bound, "max": v <= bound, "min": v >= bound}[m]
                       for v in sums]
                if all(o is True for o in oks):
                    pass
                elif all(o is False for o in oks if o is not None) and None not in oks:
                    return F
                elif cum is None:
                    return F
                else:
                    res = B
            return res
        if k in ("ResourceTasksDistance", "ResourceNonDelay"):
            if cumulative_spec(spec, c["resource"]) is not None:
                return B
            lst = sorted((s, e) for _, s, e in P["busy"].get(c["resource"], []))
            if len(lst) < 2:
                return T
            dup = len({s for s, _ in lst}) < len(lst) or len({e for _, e in lst}) < len(lst)
            res = T
            for (s0, e0), (s1, e1) in zip(lst, lst[1:]):
                d = s1 - e0
                if k == "ResourceNonDelay":
                    ok = d == 0
                else:
                    ivs = c.get("intervals")
                    if ivs is not None and not any(lo <= e0 <= hi and lo <= s1 <= hi for lo, hi in ivs):
                        continue
                    m, dist = c.get("mode") or "exact", c["distance"]
                    ok = {"exact": d == dist, "min": d >= dist, "max": d <= dist}[m]
                if not ok:
                    return F
            return B if dup else res
        if k in ("ResourceInterrupted", "ResourcePeriodicallyInterrupted"):
            res = T
            for (tn, s, e) in P["busy"].get(c["resource"], []):
                if "period" in c and _exempt(c, s, e):
                    continue
                ts = task_spec(spec, tn)
                var = ts["type"] == "Variable"
                ov = 0
                for lo, hi in windows(c, s, e):
                    if var:
                        if lo < s < hi or lo < e < hi:
                            if "period" in c and not _inside_activity(c, lo, hi):
                                res = tri_and([res, B])
                            else:
                                return F
                        if s < hi and e > lo:
                            ov += hi - lo
                    else:
                        if s >= hi or e <= lo:
                            continue
                        if s == e:
                            res = tri_and([res, B])
                        elif "period" in c and not _inside_activity(c, max(lo, s), min(hi, e)):
                            res = tri_and([res, B])
                        else:
                            return F
                if var:
                    d = tk[tn]["duration"]
                    mn = ts.get("min_duration") or 0
                    if d - ov < mn:
                        # straddling the activity window: lengthening may be partial
                        if "period" in c and (c.get("start") or c.get("end") is not None):
                            res = tri_and([res, B])
                        else:
                            return F
                    if ts.get("max_duration") is not None and d - ov > ts["max_duration"]:
                        return F
                    if ts.get("allowed_durations") is not None and ov:
                        res = tri_and([res, B])
            return res
        if k in ("SameWorkers", "DistinctWorkers"):
            s1, s2 = selection_spec(spec, c["s1"]), selection_spec(spec, c["s2"])
            ch = []
            for sid in (c["s1"], c["s2"]):
                found = None
                for r in spec.get("requirements", []):
                    if r["resource"] == sid:
                        if not tk[r["task"]]["scheduled"]:
                            return B
                        found = P["chosen"].get(f"{r['task']}|{sid}")
                if found is None:
                    return B
                ch.append(set(found))
            common = set(s1["workers"]) & set(s2["workers"])
            if k == "SameWorkers":
                if (ch[0] & common) != (ch[1] & common):
                    return F
                return T if ch[0] == ch[1] else B
            return _b(not (ch[0] & ch[1]))
        if k == "Not":
            return tri_not(holds(spec, c["arg"], P))
        if k == "And":
            return tri_and(holds(spec, a, P) for a in c["args"])
        if k == "Or":
            return tri_or(holds(spec, a, P) for a in c["args"])
        if k == "Xor":
            a, b = holds(spec, c["a"], P), holds(spec, c["b"], P)
            if B in (a, b):
                return B
            return _b(a != b)
        if k == "Implies":
            cond = bool(ev(c["cond"], spec, P))
            return tri_and(holds(spec, a, P) for a in c["args"]) if cond else T
        if k == "IfThenElse":
            cond = bool(ev(c["cond"], spec, P))
            return tri_and(holds(spec, a, P) for a in (c["then"] if cond else c["else"]))
        if k == "ForceApplyNOptionalConstraints":
            m, nn = c.get("mode") or "exact", c.get("n") or 1
            ap = P.get("applied") or {}
            if all(i in ap for i in c["constraints"]):
                cnt = sum(1 for i in c["constraints"] if ap[i])
                return _b({"exact": cnt == nn, "min": cnt >= nn, "max": cnt <= nn}[m])
            # candidate: flags are existential
            if m == "max":
                return T
            by_id = {x.get("id"): x for x, _ in all_constraints(spec)}
            vals = [holds(spec, by_id[i], P) for i in c["constraints"]]
            if sum(1 for v in vals if v == T) >= nn:
                return T
            if sum(1 for v in vals if v != F) >= nn:
                return B
            return F
        if k == "IndicatorTarget":
            v = indicator_value(spec, _ind_spec(spec, c["indicator"]), P)
            if v is None:
                return B
            if isinstance(v, tuple):
                return T if v[0] == v[1] == c["value"] else (B if v[0] <= c["value"] <= v[1] else F)
            return _b(v == c["value"])
        if k == "IndicatorBounds":
            v = indicator_value(spec, _ind_spec(spec, c["indicator"]), P)
            if v is None:
                return B
            lo, hi = (v, v) if not isinstance(v, tuple) else v
            okl = c.get("lower") is None or lo >= c["lower"]
            okh = c.get("upper") is None or hi <= c["upper"]
            if okl and okh:
                return T
            okl2 = c.get("lower") is None or hi >= c["lower"]
            okh2 = c.get("upper") is None or lo <= c["upper"]
            return B if (okl2 and okh2) else F
    except Band:
        return B
    raise ValueError(f"no semantics for {k}")


TASK_CONSTRAINTS = {
    "TaskStartAt", "TaskStartAfter", "TaskEndAt", "TaskEndBefore", "TaskPrecedence",
    "TasksStartSynced", "TasksEndSynced", "TasksDontOverlap", "TasksContiguous",
    "UnorderedTaskGroup", "OrderedTaskGroup", "ScheduleNTasksInTimeIntervals"}
RESOURCE_CONSTRAINTS = {
    "ResourceUnavailable", "ResourcePeriodicallyUnavailable", "WorkLoad", "ResourceTasksDistance",
    "ResourceNonDelay", "ResourceInterrupted", "ResourcePeriodicallyInterrupted", "SameWorkers",
    "DistinctWorkers"}
OPTIONAL_RULES = {"OptionalTaskForceSchedule", "OptionalTaskConditionSchedule",
                  "OptionalTasksDependency", "ForceScheduleNOptionalTasks"}
LOGIC = {"Not", "And", "Or", "Xor", "Implies", "IfThenElse"}


def clause_name(c):
    k = c["kind"]
    m = c.get("mode")
    base = k + (f".{m}" if m else "")
    if k in TASK_CONSTRAINTS:
        return "C03." + base
    if k in RESOURCE_CONSTRAINTS:
        return "C04." + base
    if k in OPTIONAL_RULES:
        return "C06.rule." + base
    if k in LOGIC:
        return "C10." + base
    if k == "FromExpression":
        return "C10.FromExpression"
    if k == "ForceApplyNOptionalConstraints":
        return "C10.ForceApplyN" + (f".{m}" if m else "")
    if k in ("IndicatorTarget", "IndicatorBounds"):
        return "C08." + k
    return "CXX." + base


def constraints_report(spec, P, rep):
    """top-level constraints: mandatory ones must hold; optional ones must hold
    when applied (applied flag known only on observed schedules)."""
    for c in spec.get("constraints", []):
        if c["kind"] in ("TaskLoadBuffer", "TaskUnloadBuffer"):
            continue
        name = clause_name(c)
        v = holds(spec, c, P)
        if c.get("optional"):
            ap = (P.get("applied") or {}).get(c.get("id"))
            if ap is None:
                rep.add("C10.optional.unpinned", T, id=c.get("id"))
                continue
            if ap:
                rep.add("C10.optional.applied_holds", v, id=c.get("id"), kind=c["kind"])
            else:
                rep.add("C10.optional.unapplied", T, id=c.get("id"))
            continue
        rep.add(name, v, id=c.get("id"), kind=c["kind"],
                tasks={n: [P["tasks"][n]["scheduled"], P["tasks"][n]["start"], P["tasks"][n]["end"]]
                       for n in tasks_named(c) if n in P["tasks"]})


# ---------------------------------------------------------------------------
# C08 indicator definitions
# ---------------------------------------------------------------------------
def _cost_integral(cost, s, e):
    """(exact integral, trapezoid) of the cost function over [s,e]"""
    if cost is None:
        return 0, 0
    k = cost["kind"]
    if k == "const":
        v = cost["value"] * (e - s)
        return v, v
    if k == "linear":
        a, b = cost["slope"], cost["intercept"]
        v = a * (e * e - s * s) / 2.0 + b * (e - s)
        return v, v
    co = cost["coefficients"]
    deg = len(co) - 1

    def f(x):
        return sum(cf * x ** (deg - i) for i, cf in enumerate(co))

    def prim(x):
        return sum(cf * x ** (deg - i + 1) / (deg - i + 1) for i, cf in enumerate(co))

    return prim(e) - prim(s), (f(s) + f(e)) * (e - s) / 2.0


def indicator_value(spec, i, P):
    """definition of indicator spec i on P.  Returns an int/float, a (lo, hi)
    range when several readings are legitimate, or None (band)."""
    k = i["kind"]
    tk = P["tasks"]
    try:
        if k == "FromExpr":
            e = i["expr"]
            v = e if isinstance(e, int) else ev(e, spec, P)
            return int(v) if isinstance(v, bool) else v
        if k in ("Utilization", "NbTasksAssigned", "ResourceIdle"):
            res = i["resource"]
            lst = P["busy"].get(res, [])
            cum = cumulative_spec(spec, res)
            if k == "Utilization":
                H = P["horizon"]
                if not H:
                    return None
                busy = sum(e - s for _, s, e in lst)
                if cum is not None:
                    hi = busy
                    if P.get("unit_busy") and res in P["unit_busy"]:
                        hi = sum(e - s for ul in P["unit_busy"][res].values() for _, s, e in ul)
                    pts = set()
                    for _, s, e in lst:
                        pts.update(range(s, e))
                    return (100.0 * len(pts) / H, 100.0 * max(hi, busy) / H)
                return 100.0 * busy / H
            if k == "NbTasksAssigned":
                n = len({a[0] for a in lst})
                if cum is not None:
                    hi = n
                    if P.get("unit_busy") and res in P["unit_busy"]:
                        hi = sum(len(ul) for ul in P["unit_busy"][res].values())
                    return (n, max(n, hi))
                return n
            if cum is not None:
                return None
            srt = sorted((s, e) for _, s, e in lst)
            if len({s for s, _ in srt}) < len(srt) or len({e for _, e in srt}) < len(srt):
                return None
            return sum(b[0] - a[1] for a, b in zip(srt, srt[1:]))
        if k in ("Tardiness", "Earliness", "NbTardy", "MaxLateness"):
            names = i.get("tasks")
            if names is None:
                names = [t["name"] for t in spec["tasks"]]
            sch = [n for n in names if tk[n]["scheduled"]]
            dd = {n: task_spec(spec, n).get("due_date") for n in names}
            if any(dd[n] is None for n in names):
                return None
            if k == "Tardiness":
                unw = sum(max(0, tk[n]["end"] - dd[n]) for n in sch)
                wei = sum(max(0, tk[n]["end"] - dd[n]) * (task_spec(spec, n).get("priority", 1)
                                                          if task_spec(spec, n).get("priority") is not None else 1)
                          for n in sch)
                return (min(unw, wei), max(unw, wei)) if unw != wei else unw
            if k == "Earliness":
                return sum(max(0, dd[n] - tk[n]["end"]) for n in sch)
            if k == "NbTardy":
                return sum(1 for n in sch if tk[n]["end"] > dd[n])
            if not sch:
                return None
            return max(tk[n]["end"] - dd[n] for n in sch)
        if k == "ResourceCost":
            lo = hi = 0.0
            for res in i["resources"]:
                w = worker_spec(spec, res)
                if w is not None:
                    for _, s, e in P["busy"].get(res, []):
                        ex, tr = _cost_integral(w.get("cost"), s, e)
                        lo += min(ex, tr)
                        hi += max(ex, tr)
                else:
                    c = cumulative_spec(spec, res)
                    cv = 0 if c.get("cost") is None else c["cost"]["value"]
                    parts = distribute(cv, c["size"])
                    if P.get("unit_busy") and res in P["unit_busy"]:
                        for u, part in zip(unit_names(c), parts):
                            v = sum(part * (e - s) for _, s, e in P["unit_busy"][res][u])
                            lo += v
                            hi += v
                    else:
                        for _, s, e in P["busy"].get(res, []):
                            lo += min(parts) * (e - s)
                            hi += cv * (e - s)
            return lo if lo == hi else (lo, hi)
        if k in ("MaxBufferLevel", "MinBufferLevel"):
            lv = (P.get("levels") or {}).get(i["buffer"])
            if lv is None:
                lv = buffer_replay(spec, i["buffer"], P)
                if lv is None:
                    return None
                lv = lv["levels"]
            return max(lv) if k == "MaxBufferLevel" else min(lv)
    except Band:
        return None
    raise ValueError(k)


def objective_indicator_value(spec, o, P):
    """definition of the indicator an objective creates (reported under a fixed name)"""
    tk = P["tasks"]
    k = o["kind"]
    names = o.get("tasks") or [t["name"] for t in spec["tasks"]]
    sch = [n for n in names if tk[n]["scheduled"]]

    def prio(n):
        p = task_spec(spec, n).get("priority")
        return 1 if p is None else p

    if k == "Flowtime":
        return "Flowtime", sum(tk[n]["end"] for n in sch)
    if k == "Priorities":
        return "TotalPriority", sum(tk[n]["end"] * prio(n) for n in sch)
    if k == "StartEarliest":
        return "WeightedStartTimes", sum(tk[n]["start"] * prio(n) for n in sch)
    if k == "StartLatest":
        return "MinimumStartTime", (min(tk[n]["start"] for n in sch) if sch else None)
    if k == "GreatestStart":
        return "GreatestStartTime", (max(tk[n]["start"] for n in sch) if sch else None)
    if k == "FlowtimeSingleResource":
        lo, hi = o.get("interval") or (0, P["horizon"])
        hi_name = hi if o.get("interval") else "horizon"
        inside = [(s, e) for _t, s, e in P["busy"].get(o["resource"], []) if s >= lo and e <= hi]
        name = f"FlowTimeSingleResource({o['resource']}:{lo}:{hi_name})"
        return name, ((max(e for _s, e in inside) - min(s for s, _e in inside)) if inside else None)
    return None, None


def c08_indicators(spec, P, reported, ind_names, rep):
    """reported: {name: value} of the solution; ind_names: spec id -> reported name"""
    for i in spec.get("indicators", []):
        name = ind_names.get(i["id"])
        if name is None or name not in reported:
            rep.add("C08.reported", F if name is not None else B, id=i["id"], name=name)
            continue
        want = indicator_value(spec, i, P)
        got = reported[name]
        cl = "C08." + i["kind"]
        if want is None:
            rep.add(cl, B, id=i["id"], got=got)
            continue
        lo, hi = (want, want) if not isinstance(want, tuple) else want
        # "to within integer rounding": strictly less than 1 away from the definition
        ok = (lo - 1 < got < hi + 1)
        rep.add(cl, T if ok else F, id=i["id"], name=name, got=got, want=[lo, hi])
    for o in spec.get("objectives", []):
        name, want = objective_indicator_value(spec, o, P)
        if name is None or name not in reported:
            continue
        if want is None:
            rep.add("C08.obj." + o["kind"], B, got=reported[name])
            continue
        rep.add("C08.obj." + o["kind"], T if reported[name] == want else F, name=name,
                got=reported[name], want=want)


# ---------------------------------------------------------------------------
# C09 buffers
# ---------------------------------------------------------------------------
def buffer_accesses(spec, bname, P):
    acc = []   # (instant, +-q, task)
    for c, _top in all_constraints(spec):
        if c["kind"] in ("TaskLoadBuffer", "TaskUnloadBuffer") and c["buffer"] == bname:
            x = P["tasks"][c["task"]]
            if not x["scheduled"]:
                continue
            if c["kind"] == "TaskLoadBuffer":
                acc.append((x["end"], +c["quantity"], c["task"]))
            else:
                acc.append((x["start"], -c["quantity"], c["task"]))
    return acc


def buffer_spec(spec, name):
    for b in spec.get("buffers", []):
        if b["name"] == name:
            return b
    raise KeyError(name)


def buffer_replay(spec, bname, P):
    """level sequence after the accesses of every instant, by definition.
    returns {"times":[...], "levels":[...], "ties":bool} or None if the
    initial level is not determined."""
    b = buffer_spec(spec, bname)
    acc = sorted(buffer_accesses(spec, bname, P))
    total = sum(q for _, q, _ in acc)
    init = b.get("initial")
    if init is None:
        if b.get("final") is None:
            return None
        init = b["final"] - total
    times, levels, lvl = [], [init], init
    ties = False
    for inst, grp in itertools.groupby(acc, key=lambda a: a[0]):
        grp = list(grp)
        if len(grp) > 1:
            ties = True
        lvl += sum(q for _, q, _ in grp)
        times.append(inst)
        levels.append(lvl)
    return {"times": times, "levels": levels, "ties": ties, "naccess": len(acc)}


def c09_buffers_candidate(spec, P, rep):
    """validity of a candidate w.r.t. every buffer (strong reading)"""
    for b in spec.get("buffers", []):
        r = buffer_replay(spec, b["name"], P)
        if r is None:
            rep.add("C09.undetermined", B, buffer=b["name"])
            continue
        if r["ties"] and not b.get("concurrent"):
            rep.add("C09.non_concurrent_tie", F, buffer=b["name"])
            continue
        ok = True
        if b.get("final") is not None and r["levels"][-1] != b["final"]:
            ok = False
        if b.get("lower") is not None and any(v < b["lower"] for v in r["levels"]):
            ok = False
        if b.get("upper") is not None and any(v > b["upper"] for v in r["levels"]):
            ok = False
        rep.add("C09.levels_within_rules", T if ok else F, buffer=b["name"], levels=r["levels"])
        # an unscheduled accessing task: inert by C06; how the level list then looks is
        # not specified -> band for exactness purposes only (handled by observers)


def c09_buffers_observed(spec, P, S, rep):
    """reported level sequence vs the replay of the accesses (C09)"""
    for b in spec.get("buffers", []):
        got = S["buffers"].get(b["name"])
        if got is None:
            rep.add("C09.reported", F, buffer=b["name"])
            continue
        r = buffer_replay(spec, b["name"], P)
        unsched = any(c["kind"] in ("TaskLoadBuffer", "TaskUnloadBuffer") and c["buffer"] == b["name"]
                      and not P["tasks"][c["task"]]["scheduled"] for c, _ in all_constraints(spec))
        lv, tm = got["level"], got["times"]
        if b.get("initial") is not None:
            rep.add("C09.initial", T if lv and lv[0] == b["initial"] else F, buffer=b["name"], got=lv)
        if b.get("final") is not None:
            rep.add("C09.final", T if lv and lv[-1] == b["final"] else F, buffer=b["name"], got=lv)
        if b.get("lower") is not None:
            rep.add("C09.lower", T if all(v >= b["lower"] for v in lv) else F, buffer=b["name"], got=lv)
        if b.get("upper") is not None:
            rep.add("C09.upper", T if all(v <= b["upper"] for v in lv) else F, buffer=b["name"], got=lv)
        rep.add("C09.times_sorted", T if tm == sorted(tm) and len(set(tm)) == len(tm) else F,
                buffer=b["name"], times=tm)
        if unsched:
            # C06 decides what an unscheduled accessing task does; C09 judges the
            # scheduled accesses only: drop reported instants < 0
            rep.add("C09.replay", B, buffer=b["name"])
            continue
        if r is None:
            # initial level free: check differences only
            acc = sorted(buffer_accesses(spec, b["name"], P))
            r2 = {"times": [], "deltas": []}
            for inst, grp in itertools.groupby(acc, key=lambda a: a[0]):
                r2["times"].append(inst)
                r2["deltas"].append(sum(q for _, q, _ in grp))
            deltas = [lv[j + 1] - lv[j] for j in range(len(lv) - 1)]
            rep.add("C09.replay", T if (tm == r2["times"] and deltas == r2["deltas"]) else F,
                    buffer=b["name"], got=[lv, tm], want=r2)
            continue
        if r["ties"] and not b.get("concurrent"):
            rep.add("C09.non_concurrent_tie", F, buffer=b["name"], times=r["times"])
        rep.add("C09.replay", T if (lv == r["levels"] and tm == r["times"]) else F,
                buffer=b["name"], got=[lv, tm], want=[r["levels"], r["times"]])


# ---------------------------------------------------------------------------
# C06 (b): unscheduled tasks are inert in the report
# ---------------------------------------------------------------------------
def c06_inert(spec, P, S, rep):
    for t in spec["tasks"]:
        n = t["name"]
        x = S["tasks"].get(n)
        if x is None or x["scheduled"]:
            continue
        rep.add("C06.inert.no_assigned_resources", T if not x["assigned"] else F, task=n,
                assigned=x["assigned"])
        busy = [(r, a) for r, lst in S["assign"].items() for a in lst if a[0] == n]
        rep.add("C06.inert.no_assignment", T if not busy else F, task=n, found=busy)
    # buffers: an unscheduled accessing task must not move the level
    for b in spec.get("buffers", []):
        got = S["buffers"].get(b["name"])
        if got is None:
            continue
        uns = [c for c, _ in all_constraints(spec)
               if c["kind"] in ("TaskLoadBuffer", "TaskUnloadBuffer") and c["buffer"] == b["name"]
               and not P["tasks"][c["task"]]["scheduled"]]
        if not uns:
            continue
        r = buffer_replay(spec, b["name"], P)
        if r is None:
            rep.add("C06.inert.buffer", B, buffer=b["name"])
            continue
        # compare the levels seen at non-negative instants, and the final level
        lv, tm = got["level"], got["times"]
        pos = [(tt, lv[j + 1]) for j, tt in enumerate(tm) if tt >= 0]
        want = list(zip(r["times"], r["levels"][1:]))
        ok = (pos == want) and (lv[-1] == r["levels"][-1] if lv else True)
        rep.add("C06.inert.buffer", T if ok else F, buffer=b["name"], got=[lv, tm],
                want=[r["levels"], r["times"]], unscheduled=[c["task"] for c in uns])


    # indicators / objective indicators: an unscheduled task contributes nothing
    names = S.get("ind_names", {})
    for i in spec.get("indicators", []):
        if i["kind"] not in ("Tardiness", "Earliness", "NbTardy", "MaxLateness"):
            continue
        tl = i.get("tasks") or [t["name"] for t in spec["tasks"]]
        if all(P["tasks"][n]["scheduled"] for n in tl):
            continue
        nm = names.get(i["id"])
        if nm not in S["indicators"]:
            continue
        want = indicator_value(spec, i, P)
        if want is None:
            rep.add("C06.inert.indicator", B, id=i["id"])
            continue
        lo, hi = (want, want) if not isinstance(want, tuple) else want
        got = S["indicators"][nm]
        rep.add("C06.inert.indicator", T if lo - 1 < got < hi + 1 else F, kind=i["kind"], got=got,
                want=[lo, hi], unscheduled=[n for n in tl if not P["tasks"][n]["scheduled"]])
    for o in spec.get("objectives", []):
        nm, want = objective_indicator_value(spec, o, P)
        if nm is None or nm not in S["indicators"] or want is None:
            continue
        tl = o.get("tasks") or [t["name"] for t in spec["tasks"]]
        if all(P["tasks"][n]["scheduled"] for n in tl):
            continue
        got = S["indicators"][nm]
        rep.add("C06.inert.objective", T if got == want else F, kind=o["kind"], got=got, want=want,
                unscheduled=[n for n in tl if not P["tasks"][n]["scheduled"]])


# ---------------------------------------------------------------------------
# C11 self-consistency of the solution object (observed only)
# ---------------------------------------------------------------------------
def c11_consistency(spec, S, rep):
    tasks = S["tasks"]
    for n, x in tasks.items():
        if x["scheduled"]:
            rep.add("C11.span_eq_duration", T if x["end"] - x["start"] == x["duration"] else F,
                    task=n, start=x["start"], end=x["end"], duration=x["duration"])
            rep.add("C11.horizon_ge_end", T if S["horizon"] >= x["end"] else F, task=n,
                    end=x["end"], horizon=S["horizon"])
        else:
            rep.add("C11.unscheduled_no_assignment",
                    T if not x["assigned"] and not any(a[0] == n for lst in S["assign"].values() for a in lst)
                    else F, task=n, assigned=x["assigned"])
        # task view <-> resource view
        for r in x["assigned"]:
            has = any(a[0] == n for a in S["assign"].get(r, []))
            rep.add("C11.task_lists_resource_implies_assignment", T if has else F, task=n, resource=r)
    for r, lst in S["assign"].items():
        for a in lst:
            tn = a[0]
            rep.add("C11.assignment_implies_task_lists_resource",
                    T if tn in tasks and r in tasks[tn]["assigned"] else F, task=tn, resource=r,
                    assigned=tasks.get(tn, {}).get("assigned"))
        rep.add("C11.no_duplicate_assignment",
                T if len({a[0] for a in lst}) == len(lst) else F, resource=r, assignments=lst)
    # unit workers of cumulative workers never under their own name
    for c in spec.get("cumulative", []):
        for u in unit_names(c):
            rep.add("C11.cumulative_own_name", T if u not in S["assign"] and not any(
                u in x["assigned"] for x in tasks.values()) else F, unit=u)
        rep.add("C11.cumulative_reported", T if c["name"] in S["assign"] else F, cumulative=c["name"])
    for w in spec.get("workers", []):
        rep.add("C11.worker_reported", T if w["name"] in S["assign"] else F, worker=w["name"])
    # assignment interval is the one the requirement implies
    for r in spec.get("requirements", []):
        x = tasks.get(r["task"])
        if x is None or not x["scheduled"]:
            continue
        res = r["resource"]
        if worker_spec(spec, res) is not None and not r.get("dynamic"):
            di, eo = r.get("delay_in") or 0, r.get("early_out") or 0
            if x["start"] + di > x["end"] - eo:
                continue
            want = [r["task"], x["start"] + di, x["end"] - eo]
            mine = [a for a in S["assign"].get(res, []) if a[0] == r["task"]]
            rep.add("C11.assignment_interval", T if mine == [want] else F, want=want, found=mine)
            rep.add("C11.assigned_listed", T if res in x["assigned"] else F, task=r["task"], resource=res)
        elif cumulative_spec(spec, res) is not None:
            want = [r["task"], x["start"], x["end"]]
            mine = [a for a in S["assign"].get(res, []) if a[0] == r["task"]]
            rep.add("C11.assignment_interval", T if mine == [want] else F, want=want, found=mine)
            rep.add("C11.assigned_listed", T if res in x["assigned"] else F, task=r["task"], resource=res)
    # calendar arithmetic
    p = spec["problem"]
    if p.get("delta_minutes") is not None:
        import datetime as dt
        delta = dt.timedelta(minutes=p["delta_minutes"])
        st = dt.datetime.fromisoformat(p["start_time"]) if p.get("start_time") else None
        for n, x in tasks.items():
            ws = (st + x["start"] * delta) if st is not None else x["start"] * delta
            we = (st + x["end"] * delta) if st is not None else x["end"] * delta
            gs, ge = x.get("start_time_raw"), x.get("end_time_raw")
            if not x["scheduled"]:
                # the instants of an unscheduled task carry no meaning
                rep.add("C11.calendar.unscheduled", B, task=n)
                continue
            if st is None:
                # without a start time the library documents durations from 0; the
                # solution model types these fields as datetimes -> whatever is
                # reported must still encode start*delta / end*delta
                rep.add("C11.calendar.no_start_time", B, task=n)
            else:
                rep.add("C11.calendar.start", T if gs == ws else F, task=n, got=str(gs), want=str(ws))
                rep.add("C11.calendar.end", T if ge == we else F, task=n, got=str(ge), want=str(we))
            rep.add("C11.calendar.duration",
                    T if x["duration_time"] == (x["duration"] * delta).total_seconds() else F,
                    task=n, got=x["duration_time"])
    # hooked state: report == model
    h = S.get("hook")
    if h:
        for n, x in tasks.items():
            m = h["tasks"].get(n)
            if m is None:
                continue
            ok = x["start"] == m["start"] and x["end"] == m["end"] and x["scheduled"] == bool(m["scheduled"])
            if m["duration"] is not None and x["scheduled"]:
                ok = ok and x["duration"] == m["duration"]
            rep.add("C11.report_eq_model", T if ok else F, task=n, reported=[x["start"], x["end"], x["scheduled"],
                                                                          x["duration"]], model=m)
        for iid, v in h["ind"].items():
            name = S["ind_names"].get(iid)
            if name in S["indicators"]:
                rep.add("C11.indicator_eq_model", T if S["indicators"][name] == v else B, id=iid)


# ---------------------------------------------------------------------------
# whole-schedule evaluation
# ---------------------------------------------------------------------------
def evaluate_observed(spec, S, user_horizon=True):
    """all soundness clauses on an observed schedule"""
    rep = Report()
    P = plain_from_observed(spec, S)
    P["levels"] = {n: b["level"] for n, b in S["buffers"].items()}
    c01_tasks(spec, P, rep, user_horizon)
    c02_resources(spec, P, rep)
    constraints_report(spec, P, rep)
    c06_inert(spec, P, S, rep)
    c08_indicators(spec, P, S["indicators"], S.get("ind_names", {}), rep)
    c09_buffers_observed(spec, P, S, rep)
    c11_consistency(spec, S, rep)
    return rep, P


def evaluate_candidate(spec, cand):
    """validity of a fully specified candidate (strong reading when all T)"""
    rep = Report()
    P = plain_from_candidate(spec, cand)
    c01_tasks(spec, P, rep)
    c02_resources(spec, P, rep)
    constraints_report(spec, P, rep)
    c09_buffers_candidate(spec, P, rep)
    return rep, P
