"""pytest plugin for L7 (suite replay): runs the repository's own tests with
boundary C wrapped, extracts a Spec from the live problem objects and judges
every SchedulingSolution the tests build with the universal monitors.
Whether a test passes is irrelevant; only what the monitors saw is recorded
(one JSON line per solution in $RTMON_SUITE_OUT)."""
import json
import os

import z3

from rtmon import instrument as ins

ins.assert_repo_under_test()

import processscheduler as ps  # noqa: E402
import processscheduler.solver as pss  # noqa: E402
from rtmon import observe as obs  # noqa: E402
from rtmon import refsem as rs  # noqa: E402

OUT = os.environ.get("RTMON_SUITE_OUT")
_current = {"test": None}


def _int(v):
    return v if isinstance(v, int) and not isinstance(v, bool) else None


def extract_spec(problem):
    """Spec of what can be read off the pydantic fields; constraints with opaque
    z3 parameters and first-order-logic nodes are skipped and counted."""
    skipped = []
    spec = {"problem": {"name": problem.name, "horizon": _int(problem.horizon)}, "tasks": [], "workers": [],
            "cumulative": [], "selections": [], "requirements": [], "buffers": [], "constraints": [], "indicators": [],
            "objectives": []}
    for name, t in problem.tasks.items():
        d = {"name": name, "optional": bool(t.optional), "release_date": t.release_date, "due_date": t.due_date,
             "due_date_is_deadline": t.due_date_is_deadline, "priority": t.priority, "work_amount": t.work_amount}
        if isinstance(t, ps.FixedDurationTask):
            d.update(type="Fixed", duration=t.duration)
        elif isinstance(t, ps.ZeroDurationTask):
            d.update(type="Zero")
        else:
            d.update(type="Variable", min_duration=t.min_duration, max_duration=t.max_duration,
                     allowed_durations=t.allowed_durations)
        spec["tasks"].append(d)
    for name, w in problem.workers.items():
        if "_CumulativeWorker_" in name:
            continue
        spec["workers"].append({"name": name, "productivity": w.productivity})
    for name, c in problem.cumulative_workers.items():
        spec["cumulative"].append({"name": name, "size": c.size})
    for b in problem.buffers:
        spec["buffers"].append({"name": b.name, "concurrent": isinstance(b, ps.ConcurrentBuffer), "initial": b.initial_level,
                                "final": b.final_level, "lower": b.lower_bound, "upper": b.upper_bound})

    def tn(x):
        return x.name if isinstance(x, (ps.FixedDurationTask, ps.ZeroDurationTask, ps.VariableDurationTask)) else None

    def rn(x):
        return x.name if isinstance(x, (ps.Worker, ps.CumulativeWorker)) and "_CumulativeWorker_" not in x.name else None

    for name, c in problem.constraints.items():
        k = type(c).__name__
        if c._created_from_assertion:
            continue
        d = {"id": name, "kind": k, "optional": bool(c.optional)}
        try:
            if k in ("TaskStartAt", "TaskEndAt"):
                d.update(task=tn(c.task), value=_int(c.value))
            elif k in ("TaskStartAfter", "TaskEndBefore"):
                d.update(task=tn(c.task), value=_int(c.value), mode=c.kind)
            elif k == "TaskPrecedence":
                d.update(before=tn(c.task_before), after=tn(c.task_after), offset=c.offset, mode=c.kind)
            elif k in ("TasksStartSynced", "TasksEndSynced", "TasksDontOverlap"):
                d.update(t1=tn(c.task_1), t2=tn(c.task_2))
            elif k == "TasksContiguous":
                d.update(tasks=[tn(t) for t in c.list_of_tasks])
            elif k in ("UnorderedTaskGroup", "OrderedTaskGroup"):
                d.update(tasks=[tn(t) for t in c.list_of_tasks],
                         interval=list(c.time_interval) if c.time_interval is not None else None,
                         length=c.time_interval_length if c.time_interval is None else None)
                if k == "OrderedTaskGroup":
                    d["mode"] = c.kind
            elif k == "ScheduleNTasksInTimeIntervals":
                d.update(tasks=[tn(t) for t in c.list_of_tasks], n=c.nb_tasks_to_schedule,
                         intervals=[list(i) for i in c.list_of_time_intervals], mode=c.kind)
            elif k == "OptionalTaskForceSchedule":
                d.update(task=tn(c.task), value=bool(c.to_be_scheduled))
            elif k == "OptionalTasksDependency":
                d.update(t1=tn(c.task_1), t2=tn(c.task_2))
            elif k == "ForceScheduleNOptionalTasks":
                d.update(tasks=[tn(t) for t in c.list_of_optional_tasks], n=c.nb_tasks_to_schedule, mode=c.kind)
            elif k in ("TaskLoadBuffer", "TaskUnloadBuffer"):
                d.update(task=tn(c.task), buffer=c.buffer.name, quantity=c.quantity)
            elif k in ("ResourceUnavailable", "ResourceInterrupted"):
                d.update(resource=rn(c.resource), intervals=[list(i) for i in c.list_of_time_intervals])
            elif k in ("ResourcePeriodicallyUnavailable", "ResourcePeriodicallyInterrupted"):
                d.update(resource=rn(c.resource), intervals=[list(i) for i in c.list_of_time_intervals], period=c.period,
                         start=c.start, offset=c.offset, end=c.end)
            elif k == "WorkLoad":
                d.update(resource=rn(c.resource), map=[[lo, hi, b] for (lo, hi), b in c.dict_time_intervals_and_bound.items()],
                         mode=c.kind)
            elif k == "ResourceTasksDistance":
                d.update(resource=rn(c.resource), distance=c.distance, mode=c.mode,
                         intervals=[list(i) for i in c.list_of_time_intervals] if c.list_of_time_intervals else None)
            elif k == "ResourceNonDelay":
                d.update(resource=rn(c.resource))
            else:
                skipped.append(k)
                continue
        except Exception:  # pylint: disable=broad-except
            skipped.append(k)
            continue
        flat = [v for key, v in d.items() if key in ("task", "before", "after", "t1", "t2", "resource", "value")]
        if any(v is None for v in flat) or any(x is None for x in d.get("tasks", [])):
            skipped.append(k + ":opaque")
            continue
        spec["constraints"].append(d)
    return spec, skipped


UNIVERSAL = ("C01.", "C02.no_overlap", "C02.capacity", "C03.", "C04.", "C06.inert", "C06.rule", "C09.", "C11.")
SKIP_CLAUSES = ("C11.assignment_interval", "C11.assigned_listed", "C11.worker_reported", "C11.cumulative_reported",
                "C11.calendar", "C11.report_eq_model", "C11.indicator_eq_model")


def judge(solver, model, solution):
    problem = solver.problem
    spec, skipped = extract_spec(problem)
    S = obs.public_view(solution)
    S["hook"] = None
    S["ind_names"] = {}
    # applied flags of optional constraints, straight from the model
    applied = {}
    for name, c in problem.constraints.items():
        if c.optional:
            v = model.eval(c._applied, model_completion=True)
            applied[name] = z3.is_true(v)
    rep = rs.Report()
    P = rs.plain_from_observed(spec, S)
    P["applied"] = applied
    P["levels"] = {n: b["level"] for n, b in S["buffers"].items()}
    user_h = spec["problem"]["horizon"] is not None
    rs.c01_tasks(spec, P, rep, user_h)
    rs.c02_resources(spec, P, rep)
    rs.constraints_report(spec, P, rep)
    rs.c06_inert(spec, P, S, rep)
    rs.c09_buffers_observed(spec, P, S, rep)
    rs.c11_consistency(spec, S, rep)
    fails = [(c, d) for c, d in rep.failed() if c.startswith(UNIVERSAL) and not c.startswith(SKIP_CLAUSES)]
    counts = {}
    for c, o, _d in rep.items:
        if c.startswith(UNIVERSAL) and not c.startswith(SKIP_CLAUSES):
            counts[f"{c}:{o}"] = counts.get(f"{c}:{o}", 0) + 1
    soc = {}
    for name, t in problem.tasks.items():
        cums = [r.name for r in t._required_resources if isinstance(r, ps.CumulativeWorker)]
        if cums:
            soc[name] = cums
    return {"test": _current["test"], "problem": problem.name, "n_tasks": len(spec["tasks"]), "sel_over_cumulative": soc,
            "n_constraints": len(spec["constraints"]), "skipped": skipped, "clauses": counts,
            "failed": [{"clause": c, "detail": d} for c, d in fails][:10]}


def _install():
    S = pss.SchedulingSolver
    orig = S.build_solution

    def build_solution(self, z3_sol):
        sol = orig(self, z3_sol)
        if OUT:
            try:
                rec = judge(self, z3_sol, sol)
            except Exception as exc:  # pylint: disable=broad-except
                rec = {"test": _current["test"], "problem": getattr(self.problem, "name", "?"),
                       "harness_error": f"{type(exc).__name__}: {exc}"[:300]}
            with open(OUT, "a") as f:
                f.write(json.dumps(rec, default=str) + "\n")
        return sol

    S.build_solution = build_solution


_install()


def pytest_runtest_setup(item):
    _current["test"] = item.nodeid
